"""C15 -- browser-side patch / decision application agrees with Python: hand-duplicated tables."""
import ast
import re

from ..core import AnalysisError, dotted, walk_no_nested
from ..util import calls_in, const_val, if_chain, compare_eq_const
from ..tsscan import TsFile
from .. import mergefacts as mf
from .. import facts

ASSUMPTIONS = [
    'TypeScript is not executed (no JS toolchain here): agreement on documents is not decided, only the duplicated vocabularies, '
    'the line-splitting model and the shape of the string-diff flattening',
    'the TS scanner extracts lexical facts inside named functions/types; each extracted construct is listed in evidence with file:line',
    'CPython str.splitlines separator table as documented (docs.python.org, str.splitlines), frozen in this rule',
    'unarmed: Python flatten merges adjacent ops and apply_decisions re-combines patches (combine_patches); TS does neither -- no failing document could be exhibited without running TS',
]

TS = 'packages/nbdime/src/'
# https://docs.python.org/3/library/stdtypes.html#str.splitlines  (line boundaries)
PY_SPLITLINES = ['\n', '\r', '\r\n', '\v', '\f', '\x1c', '\x1d', '\x1e', '\x85', ' ', ' ']


def _run_base(ctx):
    repo, cg = ctx.repo, ctx.cg
    ctx.rule('R15.1', 'every action Python can emit is accepted by the TS whitelist, the whitelist equals the Action union, and each member has an arm in TS resolveAction', floor=9)
    ctx.rule('R15.2', 'diff op vocabulary: Python ops = TS DiffOp union; TS patchers/validators have arms for the ops of their container kind', floor=6)
    ctx.rule('R15.3', 'one line model: the separators at which Python splits lines = the separators the TS splitLines regex retains', floor=1)
    ctx.rule('R15.4', 'string-diff flattening has the same shape on both sides (addrange joined at line start, removerange by char span, nested patches offset, stable sort by key)', floor=2)

    dec = TsFile(repo, TS + 'merge/decisions.ts')
    union, uline = dec.type_union('Action')
    vbody = dec.function_body('validateAction')
    arrays = dec.array_literals(vbody)
    if len(arrays) != 1:
        raise AnalysisError('validateAction: expected one string array literal')
    white, wline = arrays[0]
    rbody = dec.function_body('resolveAction')
    arms = {lit for lhs, lit, line in dec.eq_literals(rbody, {'a'})}
    ctx.extra['ts_extracted'] = {
        'Action union': '%s  (%sdecisions.ts:%d)' % (union, TS + 'merge/', uline),
        'validateAction whitelist': '%s  (:%d)' % (white, wline),
        'resolveAction arms': sorted(arms),
    }
    emitted = mf.emitted_actions(repo, cg)
    reach = cg.reachable(facts.MERGE_API)
    for a in sorted(emitted):
        sites = [(w, n) for w, n in emitted[a] if w in reach]
        if not sites:
            continue
        ok = a in white
        ctx.inst('R15.1', sites[0][0], 'action %r' % a, ok, 'accepted by validateAction' if ok else
                 'the TS MergeDecision constructor throws "Invalid merge decision action" for %r, which the server can send' % a, sites[0][1])
    ok = sorted(white) == sorted(union)
    ctx.inst('R15.1', TS + 'merge/decisions.ts:validateAction', 'whitelist vs Action union', ok,
             'identical' if ok else 'whitelist %s != union %s' % (sorted(white), sorted(union)), None)
    for a in sorted(white):
        ok = a in arms
        ctx.inst('R15.1', TS + 'merge/decisions.ts:resolveAction', "arm a === '%s'" % a, ok,
                 'handled' if ok else 'whitelisted action has no arm: resolveAction throws "not defined"', None)

    # ---------------------------------------------------------------- R15.2
    consts = mf.diffop_consts(repo)
    py_ops = sorted(consts.values())
    de = TsFile(repo, TS + 'diff/diffentries.ts')
    tunion, tl = de.type_union('DiffOp')
    ok = sorted(tunion) == py_ops
    ctx.inst('R15.2', TS + 'diff/diffentries.ts:DiffOp', 'TS %s vs Python %s' % (sorted(tunion), py_ops), ok,
             'same op vocabulary' if ok else 'op vocabularies differ', None)
    seq = mf.builder_ops(repo, 'SequenceDiffBuilder')
    mp = mf.builder_ops(repo, 'MappingDiffBuilder')
    gen = TsFile(repo, TS + 'patch/generic.ts')
    st = TsFile(repo, TS + 'patch/stringified.ts')
    checks = [
        (gen, 'patchSequence', seq, 'e.op'), (gen, 'patchObject', mp, 'e.op'),
        (de, 'validateSequenceOp', seq, 'entry.op'), (de, 'validateObjectOp', mp, 'op'),
        (st, 'patchString', [o for o in seq if o != consts['DiffOp.PATCH']], 'e.op'),
    ]
    for f, name, want, lhs in checks:
        body = f.function_body(name)
        got = {lit for l, lit, line in f.eq_literals(body) if l == lhs}
        ok = set(want) <= got
        ctx.inst('R15.2', '%s:%s' % (f.relpath, name), 'arms %s vs needed %s' % (sorted(got), sorted(want)), ok,
                 'an arm exists for each op of this container kind' if ok else
                 'no arm for %s: such an entry is silently skipped or rejected in the browser' % sorted(set(want) - got), None)

    # ---------------------------------------------------------------- R15.3
    ut = TsFile(repo, TS + 'common/util.ts')
    res = ut.regexes(ut.function_body('splitLines'))
    if len(res) != 1:
        raise AnalysisError('splitLines: expected exactly one regex literal')
    body, flags, rline = res[0]
    m = re.search(r'\(([^()]*)\)\s*$', body)
    if not m:
        raise AnalysisError('splitLines regex has no trailing terminator group: %r' % body)
    alts = []
    for alt in m.group(1).split('|'):
        if alt == '$':
            continue
        s = alt.encode('utf8').decode('unicode_escape') if '\\' in alt else alt
        alts.append(s)
    ts_seps = sorted(set(alts))
    # python sites defining line keys
    from ..linemodel import python_line_sites
    psites = python_line_sites(ctx)
    sigs = {tuple(sig) for fid, sig, node in psites}
    ok = sigs == {('splitlines(True)',)}
    ctx.inst('R15.3', 'nbdime:<line-key sites>', '%d Python sites: %s' % (len(psites), sorted({s for f, sg, n in psites for s in sg})), ok,
             'all Python sites that define line keys use str.splitlines(True)' if ok else
             'Python sites disagree among themselves / use a custom splitter: %s' % {f.split(':')[1]: sg for f, sg, n in psites}, psites[0][2])
    py_sets = {tuple(sorted(PY_SPLITLINES))} if ok else {None}
    if ok:
        py = sorted(next(iter(py_sets)))
        only_py = [repr(x) for x in py if x not in ts_seps]
        only_ts = [repr(x) for x in ts_seps if x not in py]
        same = not only_py and not only_ts
        ctx.extra['ts_extracted']['splitLines regex'] = '/%s/%s (%scommon/util.ts:%d) retains %s' % (body, flags, TS, rline, [repr(x) for x in ts_seps])
        ctx.inst('R15.3', TS + 'common/util.ts:splitLines',
                 'line separators only Python (str.splitlines) splits at: [%s]; only TS splitLines: [%s]' % (', '.join(only_py), ', '.join(only_ts)), same,
                 'same separator set' if same else
                 'line-keyed diffs address different lines in the browser than on the server (TS regex /%s/%s)' % (body, flags), None)

    # ---------------------------------------------------------------- R15.4
    fl = repo.func('nbdime.diff_utils:flatten_list_of_string_diff')
    callnames = {dotted(c.func) or (c.func.attr if isinstance(c.func, ast.Attribute) else '') for c in calls_in(fl)}
    tests = set()
    for n in walk_no_nested(fl):
        if isinstance(n, ast.If):
            for test, body, node in if_chain(n)[0]:
                r = compare_eq_const(test)
                if isinstance(test, ast.Compare) and dotted(test.comparators[0]) in consts:
                    tests.add(consts[dotted(test.comparators[0])])
    sorts = [c for c in calls_in(fl) if isinstance(c.func, ast.Attribute) and c.func.attr == 'sort' or dotted(c.func) == 'sorted']
    ok = {'addrange', 'removerange', 'patch'} <= tests and 'op_addrange' in callnames and 'op_removerange' in callnames \
        and any('join' in x for x in callnames) and bool(sorts)
    ctx.inst('R15.4', 'nbdime.diff_utils:flatten_list_of_string_diff', 'arms %s; calls op_addrange/op_removerange/join; list.sort by key' % sorted(tests), ok,
             'expected shape' if ok else 'Python flattener lost an arm or the final stable sort', fl)
    du = TsFile(repo, TS + 'diff/util.ts')
    fb = du.function_body('flattenStringDiff')
    lits = {lit for l, lit, line in du.eq_literals(fb) if l == 'e.op'}
    calls = {c for c, line in du.calls(fb)}
    sk = ut.function_body('sortByKey')
    stable = any(c == 'stableSort' for c, line in ut.calls(sk))
    ok = {'patch', 'addrange'} <= lits and {'opAddRange', 'opRemoveRange', 'join', 'sortByKey', 'splitLines'} <= calls and stable
    ctx.inst('R15.4', TS + 'diff/util.ts:flattenStringDiff', 'arms %s; calls %s; sortByKey->stableSort=%s' % (
        sorted(lits), sorted(calls & {'opAddRange', 'opRemoveRange', 'join', 'sortByKey', 'splitLines'}), stable), ok,
        'expected shape' if ok else 'TS flattener lost an arm, the line split or the stable sort', None)


def run(ctx):
    ctx.rule('R15.7', 'both implementations apply decisions to a deep copy of base (the web tool re-applies the decisions to the same base object on every save)', floor=2)
    ctx.rule('R15.6', 'where Python re-sorts diff entries while applying decisions / flattening string diffs it orders them by key alone (stable), like TS sortByKey/stableSort and TS applyDecisions, which has no re-combination step', floor=1)
    ctx.rule('R15.5', 'the "cleared value" helper maps every JSON kind to the same result kind on both sides (exhaustive over null/boolean/number/string/array/object)', floor=6)
    _run_base(ctx)
    from ..tskind import ts_kind_function, py_kind_function, JSON_KINDS
    repo = ctx.repo
    dec = TsFile(repo, TS + 'merge/decisions.ts')
    ts_table, arms = ts_kind_function(dec, 'makeClearedValue', 'value')
    pyfn = repo.func(mf.DEC + ':make_cleared_value')
    py_table = py_kind_function(pyfn, mf.DEC + ':make_cleared_value')
    # both helpers are only reached from the `clear` action
    rbody = dec.function_body('resolveAction')
    if not any(name == 'makeClearedValue' for name, line in dec.calls(rbody)):
        raise AnalysisError('TS resolveAction no longer calls makeClearedValue')
    ctx.extra.setdefault('ts_extracted', {})['makeClearedValue'] = {k: v[0] for k, v in ts_table.items()}
    for kind in JSON_KINDS:
        t = ts_table[kind][0]
        p = py_table[kind]
        ok = p == [t]
        ctx.inst('R15.5', TS + 'merge/decisions.ts:makeClearedValue', 'base value of kind %s: TS -> %s, Python -> %s' % (kind, t, '/'.join(p)), ok,
                 'both sides clear it to the same kind' if ok else
                 'clearing a %s base value gives %s in the browser (arm %s, line %s) but %s on the server: a `clear` decision (conflicting execution_count, outputs, ...) '
                 'is applied differently' % (kind, t, ts_table[kind][1], ts_table[kind][2], '/'.join(p)), None)

    from ..sorts import key_sort_sites, key_function_kind
    for fid, fn, call, lst, keyfn in key_sort_sites(repo):
        kind = key_function_kind(keyfn)
        ctx.inst('R15.6', fid, repo.norm(call), kind == 'key-only',
                 'ordered by key only; equal keys keep arrival order, as in the browser' if kind == 'key-only' else
                 'Python breaks ties between entries on the same key with an extra sort criterion; the TypeScript side keeps arrival order '
                 '(sortByKey is a stable sort by key, applyDecisions applies decisions one by one): both sides order e.g. an addrange and a patch on one line differently', call)

    # ---------------------------------------------------------------- R15.7
    ab = dec.function_body('applyDecisions')
    toks = [t.text for t in ab]
    ok_ts = False
    for i in range(len(toks) - 4):
        if toks[i] == 'merged' and toks[i + 1] == '=' and toks[i + 2] == 'deepCopy' and toks[i + 3] == '(' and toks[i + 4] == 'base':
            ok_ts = True
    first_assign = next((' '.join(toks[i:i + 12]) for i in range(len(toks) - 1) if toks[i] == 'merged' and toks[i + 1] == '='), '<merged is not assigned>')
    ctx.inst('R15.7', TS + 'merge/decisions.ts:applyDecisions', first_assign[:80], ok_ts,
             'merged starts as a deep copy of base' if ok_ts else
             'applyDecisions no longer starts from deepCopy(base): results are written back with parent[lastKey] = patch(...), so the caller\'s base is rewritten '
             'and the second application (every save of the web tool) applies the decisions to an already merged document; Python deep-copies', None)
    ap = repo.func(mf.DEC + ':apply_decisions')
    ok_py = any(isinstance(n, ast.Assign) and isinstance(n.value, ast.Call) and (dotted(n.value.func) or '').endswith('deepcopy') and
                n.value.args and dotted(n.value.args[0]) == ap.args.args[0].arg for n in walk_no_nested(ap))
    ctx.inst('R15.7', mf.DEC + ':apply_decisions', 'merged = copy.deepcopy(%s)' % ap.args.args[0].arg, ok_py,
             'Python applies decisions to a deep copy of base' if ok_py else 'apply_decisions no longer deep-copies base', ap)


from .extra import with_extra  # noqa: E402
run = with_extra('C15', run)
