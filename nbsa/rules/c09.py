"""C09 -- merge decisions losslessly describe the merge and follow the published schema (vocabulary/shape clauses)."""
import ast

from ..core import AnalysisError, dotted, walk_no_nested, FuncTypes
from ..cfg import CFG
from ..util import last_attr, calls_in, local_defs, depends_on, const_val, names_in, if_chain
from .. import mergefacts as mf
from .. import facts

ASSUMPTIONS = [
    'apply-equals-merged, all-local reproduces local, all-remote reproduces remote: behavioural, not decided',
    'that _sort_key orders deeper paths / higher indices first is arithmetic, not decided; only "everything returned passed through the one sort" is',
    'JSON plainness of values inside diffs comes from the inputs, not decided',
]

DEC, GEN, MNB = mf.DEC, mf.GEN, mf.MNB


def schema_actions(repo):
    s = repo.json('nbdime/merge_format.schema.json')
    try:
        dec = s['definitions']['decision']
        return dec['properties']['action']['enum'], set(dec['properties']), dec.get('additionalProperties')
    except KeyError:
        raise AnalysisError('merge_format.schema.json: decision definition not found')


def _run_base(ctx):
    repo, cg = ctx.repo, ctx.cg
    ctx.rule('R09.1', 'every action the Python merger can emit is in the schema enum', floor=7)
    ctx.rule('R09.2', 'decision fields = schema properties + internal fields, and the internal ones are deleted on the one exit (validated) every public producer returns through', floor=6)
    ctx.rule('R09.3', 'every returned decision list is the result of the one sort; producers do not re-order after it; apply iterates in given order', floor=4)
    ctx.rule('R09.5', 'concurrent-insert splitter: in every arm `taken` advances by the local items and `offset` by (remote - local) items of the decision it emits (sibling cross-check, linear algebra on the source)', floor=4)
    ctx.rule('R09.6', 'decisions made where both sides changed something carry both sides\' diffs (lossless reconstruction of either side)', floor=15)
    ctx.rule('R09.4', 'diff entry constructors carry exactly the fields of the diff schema; DiffEntry is otherwise only copied', floor=8)

    enum, props, addl = schema_actions(repo)
    emitted = mf.emitted_actions(repo, cg)
    # actions emitted by code not reachable from the public API are listed but not judged
    reach = cg.reachable(facts.MERGE_API)
    for a in sorted(emitted):
        sites = [(w, n) for w, n in emitted[a] if w in reach]
        if not sites:
            ctx.inst('R09.1', emitted[a][0][0], 'action %r' % a, True, 'emitted only by code unreachable from the public merge API', emitted[a][0][1], nontrivial=False)
            continue
        w, n = sites[0]
        ok = a in enum
        ctx.inst('R09.1', w, 'action %r' % a, ok,
                 'in the schema enum' if ok else
                 'action %r can be emitted (here and at %d other site(s)) but merge_format.schema.json does not list it: '
                 'the decision list does not validate against the published schema' % (a, len(sites) - 1), n)
    ctx.extra['schema_actions'] = enum
    ctx.extra['emitted_actions'] = sorted(emitted)

    # ---------------------------------------------------------------- R09.2
    ad = repo.func(DEC + ':MergeDecisionBuilder.add_decision')
    fields = set()
    ctor = [c for c in calls_in(ad, nested=False) if ('class', DEC + ':MergeDecision') in cg.resolve(c.func, ad)]
    if len(ctor) != 1:
        raise AnalysisError('add_decision: MergeDecision(...) construction not found')
    for k in ctor[0].keywords:
        if k.arg:
            fields.add(k.arg)
    for n in walk_no_nested(ad):
        if isinstance(n, ast.Assign) and isinstance(n.targets[0], ast.Subscript) and dotted(n.targets[0].value) == 'kwargs':
            v = const_val(n.targets[0].slice)
            if isinstance(v, str):
                fields.add(v)
    sig = {a.arg for a in ad.args.args + ad.args.kwonlyargs}
    for fid, sites in cg.sites.items():
        for call, targets in sites:
            if ('func', DEC + ':MergeDecisionBuilder.add_decision') in targets:
                for k in call.keywords:
                    if k.arg and k.arg not in sig:
                        fields.add(k.arg)
    for fid, fn in repo.functions.items():
        if not fid.startswith('nbdime.merging.') or fid not in reach:
            continue
        for c in calls_in(fn, nested=False):
            if ('class', DEC + ':MergeDecision') in cg.resolve(c.func, fn) and c is not ctor[0]:
                for k in c.keywords:
                    if k.arg:
                        fields.add(k.arg)
        for n in walk_no_nested(fn):
            if isinstance(n, ast.Assign) and isinstance(n.targets[0], ast.Attribute) and \
                    n.targets[0].attr not in ('decisions',) and isinstance(n.targets[0].value, ast.Name) and \
                    n.targets[0].value.id in ('d', 'dec', 'ret', 'decision', 'md'):
                fields.add(n.targets[0].attr)
    internal = fields - props
    ok = addl is False
    ctx.inst('R09.2', 'nbdime/merge_format.schema.json', 'decision.additionalProperties = %r' % addl, ok,
             'schema rejects unknown fields' if ok else 'schema no longer closed', None)
    va = repo.func(DEC + ':MergeDecisionBuilder.validated')
    deleted = set()
    for n in walk_no_nested(va):
        if isinstance(n, ast.Delete):
            for t in n.targets:
                if isinstance(t, ast.Subscript):
                    v = const_val(t.slice)
                    if isinstance(v, str):
                        deleted.add(v)
        if isinstance(n, ast.Call) and isinstance(n.func, ast.Attribute) and n.func.attr == 'pop' and n.args:
            v = const_val(n.args[0])
            if isinstance(v, str):
                deleted.add(v)
    ok = internal == deleted
    ctx.inst('R09.2', DEC + ':MergeDecisionBuilder.validated', 'fields %s; schema %s; internal %s; deleted %s' % (
        sorted(fields), sorted(props), sorted(internal), sorted(deleted)), ok,
        'exactly the non-schema fields are stripped before decisions leave the library' if ok else
        'fields %s reach callers/JSON although the schema forbids them' % sorted(internal - deleted) if internal - deleted else
        'validated() deletes schema fields %s' % sorted(deleted - internal), va)
    producers = [GEN + ':decide_merge_with_diff', GEN + ':decide_merge', MNB + ':decide_notebook_merge', MNB + ':merge_notebooks']
    prodset = set(producers)
    for p in producers:
        fn = repo.func(p)
        defs = local_defs(fn)
        rets = [n for n in walk_no_nested(fn) if isinstance(n, ast.Return)]
        if not rets:
            raise AnalysisError('%s has no return' % p)
        for r in rets:
            def from_validated(n):
                if not isinstance(n, ast.Call):
                    return False
                if isinstance(n.func, ast.Attribute) and n.func.attr == 'validated':
                    return True
                return any(t[0] == 'func' and t[1] in prodset and t[1] != p for t in cg.resolve(n.func, fn))
            val = r.value
            if isinstance(val, ast.Tuple):
                val = val.elts[-1]
            src = depends_on(fn, val, from_validated, defs) if val is not None else None
            direct = src is not None
            # the value must BE that call result (through plain name copies), not a re-built list
            plain = direct and _plain_copy_chain(fn, val, src, defs)
            ctx.inst('R09.2', p, repo.norm(r), bool(plain),
                     'returns what validated() (or a producer that does) returned' if plain else
                     'decisions leave the library without passing validated(): internal fields and order are not normalised', r)
            # R09.3: no re-ordering after the sort
            names = set()
            if isinstance(val, ast.Name):
                names.add(val.id)
            bad = []
            for c in calls_in(fn, nested=False):
                if isinstance(c.func, ast.Attribute) and c.func.attr in ('sort', 'reverse', 'insert', 'append', 'extend', 'pop', 'remove') \
                        and dotted(c.func.value) in names:
                    bad.append(c)
            ctx.inst('R09.3', p, 'no in-place re-ordering of %s after validated()' % sorted(names), not bad,
                     'order fixed by the one sort' if not bad else 'the sorted decision list is modified afterwards: %s' % repo.norm(bad[0]),
                     bad[0] if bad else r)
    # ---------------------------------------------------------------- R09.3
    rets = [n for n in walk_no_nested(va) if isinstance(n, ast.Return)]
    ok = len(rets) == 1 and isinstance(rets[0].value, ast.Call) and dotted(rets[0].value.func) == 'sorted' and \
        any(k.arg == 'key' and dotted(k.value) == '_sort_key' for k in rets[0].value.keywords) and \
        any(k.arg == 'reverse' and const_val(k.value) is True for k in rets[0].value.keywords) and \
        dotted(rets[0].value.args[0]) == 'self.decisions'
    ctx.inst('R09.3', DEC + ':MergeDecisionBuilder.validated', repo.norm(rets[0]) if rets else '<none>', ok,
             'all decisions, sorted by the ordering key, descending' if ok else
             'validated() does not return sorted(self.decisions, key=_sort_key, reverse=True)', rets[0] if rets else va)
    ap = repo.func(DEC + ':apply_decisions')
    pname = ap.args.args[1].arg
    loops = [n for n in walk_no_nested(ap) if isinstance(n, ast.For)]
    ok = any(dotted(l.iter) == pname for l in loops)
    ctx.inst('R09.3', DEC + ':apply_decisions', 'for md in %s' % pname, ok,
             'decisions are applied in the order given' if ok else 'apply_decisions re-orders or filters the decisions it is given',
             loops[0] if loops else ap)

    split_addrange_algebra(ctx, 'R09.5')
    # ---------------------------------------------------------------- R09.6 two-sided situations record both sides' diffs
    gen_mod = repo.mod(GEN)
    md = repo.func(GEN + ':_merge_dicts')
    dchain = None
    for n in walk_no_nested(md):
        if isinstance(n, ast.If) and 'parent_deleted' in [cc.value for cc in ast.walk(n.test) if isinstance(cc, ast.Constant)]:
            dchain = n
    if dchain is None:
        raise AnalysisError('_merge_dicts chain not found')
    for c in [x for x in ast.walk(dchain) if isinstance(x, ast.Call) and isinstance(x.func, ast.Attribute) and dotted(x.func.value) == 'decisions'
              and x.func.attr not in ('extend',)]:
        args = c.args[1:3]
        empty = [a for a in args if (isinstance(a, ast.Constant) and a.value is None) or (isinstance(a, (ast.List, ast.Tuple)) and not a.elts)]
        ok = c.func.attr != 'onesided' and len(args) == 2 and not empty
        ctx.inst('R09.6', GEN + ':_merge_dicts', repo.norm(c), ok,
                 'both sides\' entries are recorded in the decision' if ok else
                 'a key changed on BOTH sides is recorded with only one side\'s diff: choosing the other side for every decision no longer reproduces that notebook', c)
    ml = repo.func(GEN + ':_merge_lists')
    for c in [x for x in calls_in(ml, nested=False) if isinstance(x.func, ast.Attribute) and dotted(x.func.value) == 'decisions' and x.func.attr not in ('extend',)]:
        args = c.args[1:3]
        empty = [a for a in args if (isinstance(a, ast.Constant) and a.value is None) or (isinstance(a, (ast.List, ast.Tuple)) and not a.elts)]
        ok = len(args) == 2 and not empty
        ctx.inst('R09.6', GEN + ':_merge_lists', repo.norm(c), ok, 'both sides\' diffs of the chunk are passed' if ok else
                 'a chunk decision drops one side\'s diff', c)

    # ---------------------------------------------------------------- R09.4
    ds = repo.json('nbdime/diff_format.schema.json')
    consts = mf.diffop_consts(repo)
    for opname, op in sorted(consts.items()):
        sdef = ds['definitions'].get('diff_' + op)
        if sdef is None:
            ctx.inst('R09.4', 'nbdime/diff_format.schema.json', 'definition diff_%s' % op, False, 'op %s has no schema definition' % op, None)
            continue
        fn = repo.func('nbdime.diff_format:op_' + op)
        cs = [c for c in calls_in(fn) if ('class', 'nbdime.diff_format:DiffEntry') in cg.resolve(c.func, fn)]
        if len(cs) != 1:
            raise AnalysisError('op_%s does not construct exactly one DiffEntry' % op)
        kws = {k.arg for k in cs[0].keywords}
        opv = [k.value for k in cs[0].keywords if k.arg == 'op']
        ok = kws == set(sdef['properties']) and sdef.get('additionalProperties') is False and \
            opv and consts.get(dotted(opv[0])) == op and sdef['properties']['op'].get('enum') == [op]
        ctx.inst('R09.4', 'nbdime.diff_format:op_' + op, 'DiffEntry(%s) vs schema %s' % (sorted(kws), sorted(sdef['properties'])), ok,
                 'constructor fields equal the schema fields' if ok else 'entry fields and published schema disagree', cs[0])
    allowed_other = {GEN + ':create_parent_deletion_counter_diff': 'internal pseudo-op (see C03 R03.5)',
                     'nbdime.diff_utils:offset_op': 'copy of an existing entry',
                     'nbdime.diff_utils:to_diffentry_dicts': 'revival of a serialised entry'}
    for fid, fn in sorted(repo.functions.items()):
        if fid.startswith('nbdime.diff_format:op_'):
            continue
        for c in calls_in(fn, nested=False):
            if ('class', 'nbdime.diff_format:DiffEntry') in cg.resolve(c.func, fn):
                is_copy = (len(c.args) == 1 and not c.keywords) or (not c.args and len(c.keywords) == 1 and c.keywords[0].arg is None)
                # by shape, not by location: a copy/revival of an existing entry, or the internal pseudo-op (kept internal by C03 R03.5)
                opk = [k.value for k in c.keywords if k.arg == 'op']
                pseudo = bool(opk) and (const_val(opk[0]) == 'parent_deleted' or (dotted(opk[0]) or '').lower().endswith('parent_deleted') or (dotted(opk[0]) or '').endswith('ParentDeleted'))
                ok = is_copy or pseudo
                ctx.inst('R09.4', fid, repo.norm(c), ok, ('copy/revival of an existing entry' if is_copy else 'internal pseudo-op (see C03 R03.5)') if ok else
                         'a diff entry is assembled by hand outside the op_* constructors: its fields are not tied to the schema', c)
    if GEN + ':create_parent_deletion_counter_diff' in reach:
        ctx.note('merging/autoresolve.py uses the extra decision field _level but is not reachable from the public merge API' if
                 not any(f.startswith('nbdime.merging.autoresolve:') for f in reach) else
                 'merging/autoresolve.py IS reachable from the public API (uses _level)')


def _plain_copy_chain(fn, val, src_call, defs):
    """val is src_call itself or a Name bound (possibly via other plain names / tuple unpack) to it."""
    seen = set()
    cur = [val]
    while cur:
        e = cur.pop()
        if e is src_call:
            return True
        if isinstance(e, ast.Name) and e.id in defs and e.id not in seen:
            seen.add(e.id)
            for v, kind, st in defs[e.id]:
                if kind in ('assign', 'unpack'):
                    cur.append(v)
    return False


def split_addrange_algebra(ctx, rule):
    """Sibling cross-check of the cursor arithmetic in _split_addrange (shared by C09 R09.5 and C03 R03.7)."""
    repo, cg = ctx.repo, ctx.cg
    # ---------------------------------------------------------------- R09.5 cursor algebra of the concurrent-insert splitter
    from ..linalg import lin, seq_len, eq, sub, fmt
    sa = repo.func(GEN + ':_split_addrange')
    # the main loop, whatever its form (while with a manual cursor, for/enumerate with a skip flag): the outermost loop of the function
    wl = [n for n in sa.body if isinstance(n, (ast.While, ast.For))]
    if len(wl) != 1:
        raise AnalysisError('_split_addrange: main loop not found')
    # names are derived, not assumed: the decision builder, and the two cursors by the way they are used
    dvars = {t.id for n in walk_no_nested(sa) if isinstance(n, ast.Assign) and isinstance(n.value, ast.Call) and (dotted(n.value.func) or '').endswith('MergeDecisionBuilder')
             for t in n.targets if isinstance(t, ast.Name)} or {'decisions'}
    sparams = [a.arg for a in sa.args.args]
    p_local, p_remote = (sparams[1], sparams[2]) if len(sparams) > 2 else ('local', 'remote')
    auged = {n.target.id for n in walk_no_nested(sa) if isinstance(n, ast.AugAssign) and isinstance(n.target, ast.Name)}
    v_taken = v_offset = None
    for n in walk_no_nested(sa):
        if isinstance(n, ast.Subscript) and isinstance(n.value, ast.Name):
            if n.value.id == p_local and isinstance(n.slice, ast.Slice) and isinstance(n.slice.lower, ast.Name) and n.slice.lower.id in auged:
                v_taken = v_taken or n.slice.lower.id
            if n.value.id == p_remote and not isinstance(n.slice, ast.Slice):
                for x in ast.walk(n.slice):
                    if isinstance(x, ast.Name) and x.id in auged:
                        v_offset = v_offset or x.id
    v_taken, v_offset = v_taken or 'taken', v_offset or 'offset'
    chains = [st for st in wl[0].body if isinstance(st, ast.If) and any(isinstance(c, ast.Call) and isinstance(c.func, ast.Attribute) and dotted(c.func.value) in dvars
                                                                          for c in ast.walk(st))]
    chain5 = max(chains, key=lambda st: len(if_chain(st)[0])) if chains else None
    if chain5 is None:
        raise AnalysisError('_split_addrange: arm chain not found')
    arms5, else5 = if_chain(chain5)
    n_arms = 0
    for test, body, node in arms5:
        env = {}
        d_off, d_taken = {}, {}
        dec_calls = []

        def walk_arm(stmts):
            nonlocal d_off, d_taken
            for st in stmts:
                if isinstance(st, ast.Assign) and len(st.targets) == 1 and isinstance(st.targets[0], ast.Name):
                    env.setdefault(st.targets[0].id, []).append(st.value)
                elif isinstance(st, ast.AugAssign) and isinstance(st.target, ast.Name) and st.target.id in auged:
                    v = lin(st.value, env)
                    if isinstance(st.op, ast.Sub) and v is not None:
                        v = {k: -c for k, c in v.items()}
                    if st.target.id == v_offset:
                        d_off = None if (v is None or d_off is None) else {k: c for k, c in {**d_off, **{k2: d_off.get(k2, 0) + c2 for k2, c2 in v.items()}}.items() if c}
                    elif st.target.id == v_taken:
                        d_taken = None if (v is None or d_taken is None) else {k: c for k, c in {**d_taken, **{k2: d_taken.get(k2, 0) + c2 for k2, c2 in v.items()}}.items() if c}
                elif isinstance(st, ast.If):
                    walk_arm(st.body)
                    walk_arm(st.orelse)
                for c in ast.walk(st):
                    if isinstance(c, ast.Call) and isinstance(c.func, ast.Attribute) and dotted(c.func.value) in dvars and not isinstance(st, ast.If):
                        dec_calls.append(c)
        walk_arm(body)
        if not dec_calls:
            continue
        n_arms += 1
        c = dec_calls[0]

        def side_len(arg):
            # [op_addrange(key, X)] -> len(X);  []/None -> 0;  name -> its single definition
            e = arg
            if isinstance(e, ast.Name) and e.id in env and len(env[e.id]) == 1:
                e = env[e.id][0]
            if e is None or (isinstance(e, ast.Constant) and e.value is None) or (isinstance(e, ast.List) and not e.elts):
                return {}
            if isinstance(e, ast.List) and len(e.elts) == 1 and isinstance(e.elts[0], ast.Call) and dotted(e.elts[0].func) == 'op_addrange' and len(e.elts[0].args) == 2:
                return seq_len(e.elts[0].args[1], env)
            return None
        l_len = side_len(c.args[1]) if len(c.args) > 1 else None
        r_len = side_len(c.args[2]) if len(c.args) > 2 else None
        ok_t = eq(d_taken if d_taken is not None else None, l_len)
        ok_o = eq(d_off if d_off is not None else None, sub(r_len, l_len))
        ctx.inst(rule, GEN + ':_split_addrange', 'arm `%s`: local items %s, remote items %s, taken += %s, offset += %s' % (
            ast.unparse(test)[:50], fmt(l_len), fmt(r_len), fmt(d_taken), fmt(d_off)), ok_t and ok_o,
            'cursor `taken` advances by the local items consumed and `offset` by (remote - local) items, like in every sibling arm' if ok_t and ok_o else
            ('`taken` does not advance by the number of local items put into the decision' if not ok_t else
             '`offset` does not change by (remote items - local items): later similar-insert decisions are built from the wrong remote cell'), node)
    if n_arms < 4:
        raise AnalysisError('_split_addrange: fewer decision arms than expected (%d)' % n_arms)


def run(ctx):
    ctx.rule('R09.13', 'agreement between the two sides is decided by a type-strict comparison (C05 R05.6): otherwise choosing the other side does not reproduce it', floor=4)
    ctx.rule('R09.11', 'the local and remote diff arguments of every decision-builder call are the two sides\' own diffs (mirror images of each other); one expression for both only where the insert aligner established equality', floor=40)
    ctx.rule('R09.12', 'merge_notebooks returns the notebook apply_decisions built from the returned decisions, unmodified (the pair stays consistent)', floor=1)
    ctx.rule('R09.15', 'a key-only (stable) re-sort of diff entries is only applied to input whose order already puts an addrange before the patch/removerange of the same index: '
             'not to the concatenated diffs of several decisions', floor=0)
    ctx.rule('R09.8', 'entries re-sorted by key alone keep their input order at equal keys: the sorted list is appended to entry by entry (stable sort), or the sort key breaks ties explicitly', floor=2)
    ctx.rule('R09.9', 'the public merge producers never conclude "this side is unchanged" from Python equality of the documents (True == 1 == 1.0)', floor=3)
    ctx.rule('R09.10', 'the mergers only add decisions: the decision list is replaced/filtered nowhere in merging/generic.py (strategies replace only conflicted ones, R05.2)', floor=5)
    ctx.rule('R09.7', 'decision building and application never test a diff key / path element by truthiness', floor=6)
    _run_base(ctx)
    from ..keys import key_truthiness
    key_truthiness(ctx, 'R09.7', ['nbdime.merging.'], 'a decision at index 0 / line 0 is pushed to the wrong path or applied at the wrong level')

    # ---------------------------------------------------------------- R09.8
    from ..sorts import key_sort_sites, key_function_kind, single_pass_construction
    repo = ctx.repo
    sites = key_sort_sites(repo)
    from ..sorts import SITES as _SORT_SITES
    for sfid in _SORT_SITES:
        if not any(f == sfid for f, *_ in sites):
            ctx.inst('R09.8', sfid, '<no sort of the entries by key>', False,
                     'the entries this function returns are no longer ordered by key: apply_decisions concatenates the diffs of a decision local-first '
                     '(local_then_remote) and relies on this sort to restore key order before patch_list/patch_string walks them', repo.func(sfid))
    for fid, fn, call, lst, keyfn in sites:
        kind = key_function_kind(keyfn)
        if kind == 'tie-broken':
            ctx.inst('R09.8', fid, repo.norm(call), True, 'ties are broken explicitly by the sort key', call)
            continue
        ok, why = single_pass_construction(fn, lst)
        if ok and kind == 'key-only':
            # the stable sort only preserves what the INPUT order already guarantees: look at what the callers pass
            concat_callers = []
            for cfid, cfn in sorted(repo.functions.items()):
                if not cfid.startswith('nbdime.') or cfid == fid:
                    continue
                for c2 in calls_in(cfn, nested=False):
                    if not (('func', fid) in ctx.cg.resolve(c2.func, cfn) and c2.args):
                        continue
                    a0 = c2.args[0]
                    concat = isinstance(a0, ast.BinOp) and isinstance(a0.op, ast.Add)
                    if not concat and isinstance(a0, ast.Name):
                        from ..util import local_defs as _ld
                        concat = any(k in ('mutate', 'aug') and 'extend' in ast.unparse(st) for v, k, st in _ld(cfn).get(a0.id, []))
                    if concat:
                        concat_callers.append(cfid.split(':')[1])
            if concat_callers:
                # ONE finding, at the function that sorts (the root cause); which callers concatenate is detail, not identity
                ctx.inst('R09.15', fid, 'key-only re-sort  [input: concatenated diffs of several decisions]', False,
                         'callers (%s) pass the concatenated diffs of SEVERAL decisions (deeper decisions first), so an addrange can arrive after a patch of the same index; '
                         'the key-only stable sort keeps that order and patch_list/patch_string then put the inserted item AFTER the patched one: one side inserts a line '
                         'above a line that is also patched -> "Xnew\\nabcdefgh\\n" instead of "new\\nXabcdefgh\\n", reported as a clean merge' % ', '.join(sorted(set(concat_callers))), call)
        ctx.inst('R09.8', fid, repo.norm(call), ok and kind == 'key-only',
                 'stable sort of a list that is %s: an addrange stays in front of the patch/removerange on the same key' % why if ok and kind == 'key-only' else
                 ('%s; patch_list needs an addrange to come before a patch/removerange at the same key, which only input order guarantees here' % why
                  if kind == 'key-only' else 'sort key is neither the entry key nor a (key, tie-break) tuple'), call)
    # ---------------------------------------------------------------- R09.9
    DOCS = {'base', 'local', 'remote'}
    for fid in (mf.MNB + ':decide_notebook_merge', mf.MNB + ':merge_notebooks', mf.GEN + ':decide_merge', mf.GEN + ':decide_merge_with_diff', mf.GEN + ':merge'):
        if fid not in repo.functions:
            continue
        fn = repo.functions[fid]
        bad = None
        for n in walk_no_nested(fn):
            if isinstance(n, ast.Compare) and len(n.ops) == 1 and isinstance(n.ops[0], (ast.Eq, ast.NotEq)):
                l, r = dotted(n.left), dotted(n.comparators[0])
                if l in DOCS and r in DOCS and not isinstance(repo.stmt_of(n), ast.Assert):
                    bad = n
        ctx.inst('R09.9', fid, repo.norm(bad) if bad is not None else 'no ==/!= between base, local and remote', bad is None,
                 'every side is diffed; "unchanged" is concluded by the differ (type-strict)' if bad is None else
                 'a side whose only changes swap bool/int/float values of equal magnitude compares equal to base: its diff is skipped and its '
                 'changes are missing from the decisions (choosing that side no longer reproduces it)', bad if bad is not None else fn)
    # ---------------------------------------------------------------- R09.10
    n10 = 0
    for fid, fn in sorted(repo.functions.items()):
        if not fid.startswith(mf.GEN + ':') or '__unused__' in fid:
            continue
        builders = {n.id for n in ast.walk(fn) if isinstance(n, ast.Name) and 'decisions' in n.id}
        if not builders:
            continue
        n10 += 1
        bad = None
        for n in walk_no_nested(fn):
            tgts = []
            if isinstance(n, ast.Assign):
                tgts = n.targets
            elif isinstance(n, ast.AugAssign):
                tgts = [n.target]
            elif isinstance(n, ast.Delete):
                tgts = n.targets
            for t in tgts:
                base = t.value if isinstance(t, ast.Subscript) else t
                if isinstance(base, ast.Attribute) and base.attr == 'decisions' and isinstance(base.value, ast.Name) and 'decisions' in base.value.id:
                    bad = n
            if isinstance(n, ast.Call) and isinstance(n.func, ast.Attribute) and n.func.attr in ('remove', 'pop', 'clear', 'sort', 'reverse') and \
                    isinstance(n.func.value, ast.Attribute) and n.func.value.attr == 'decisions':
                bad = n
        ctx.inst('R09.10', fid, repo.norm(bad)[:120] if bad is not None else 'decision list only extended', bad is None,
                 'decisions are only added (add_decision / extend)' if bad is None else
                 'the merger drops or replaces decisions it already made: two equal one-sided decisions (the same line inserted twice) are both needed to '
                 'reproduce that side', bad if bad is not None else fn)
    if n10 < 5:
        raise AnalysisError('fewer merger functions than expected handle a decision builder')

    # ---------------------------------------------------------------- R09.11
    import copy as _copy
    from .c05 import _PairSigma
    BUILDER = {'onesided', 'agreement', 'conflict', 'local', 'remote', 'base', 'custom', 'local_then_remote', 'remote_then_local', 'tryresolve', 'similar_insert'}
    SAME_OK = {mf.GEN + ':_split_addrange': 'overlap of two inserts: equality of the items was established by diffing local against remote'}
    for fid, fn in sorted(repo.functions.items()):
        if not fid.startswith('nbdime.merging.') or '__unused__' in fid or fid.startswith('nbdime.merging.autoresolve'):
            continue
        names = {x.id for x in ast.walk(fn) if isinstance(x, ast.Name)} | {a.arg for a in fn.args.args}
        for c in calls_in(fn, nested=False):
            if not (isinstance(c.func, ast.Attribute) and c.func.attr in BUILDER and dotted(c.func.value) in ('decisions', 'self') and len(c.args) >= 3):
                continue
            L, R = c.args[1], c.args[2]
            same = ast.dump(L) == ast.dump(R)
            img = _PairSigma(names).visit(_copy.deepcopy(L))
            mirrored = ast.dump(img) == ast.dump(R) and not same
            onesided_literal = c.func.attr == 'onesided' and (const_val(L) is None or const_val(R) is None or
                                                              (isinstance(L, ast.List) and not L.elts) or (isinstance(R, ast.List) and not R.elts))
            similar = c.func.attr == 'similar_insert'
            if same:
                ok = fid in SAME_OK
                why = SAME_OK.get(fid, 'one expression is passed as both the local and the remote diff: a change only one side made is recorded as made by '
                                  'both, and choosing the other side no longer reproduces it')
            elif mirrored or onesided_literal or similar:
                ok, why = True, 'each side\'s own diff'
            else:
                ok, why = False, 'the remote argument is not the mirror image of the local one (%s vs %s)' % (ast.unparse(L)[:40], ast.unparse(R)[:40])
            ctx.inst('R09.11', fid, repo.norm(c)[:120], ok, why, c)
    # ---------------------------------------------------------------- R09.12
    mn = repo.func(mf.MNB + ':merge_notebooks')
    mdefs = local_defs(mn)
    ad = [(nm, st) for nm, ds in mdefs.items() for v, k, st in ds if isinstance(v, ast.Call) and last_attr(v) == 'apply_decisions']
    if not ad:
        raise AnalysisError('merge_notebooks: apply_decisions call not found')
    mname = ad[0][0]
    muts = []
    for n in walk_no_nested(mn):
        tg = n.targets if isinstance(n, (ast.Assign, ast.Delete)) else ([n.target] if isinstance(n, ast.AugAssign) else [])
        for t in tg:
            if isinstance(t, (ast.Subscript, ast.Attribute)) and dotted(t.value) == mname:
                muts.append(n)
        if isinstance(n, ast.Call) and isinstance(n.func, ast.Attribute) and dotted(n.func.value) == mname and n.func.attr in ('update', 'pop', 'setdefault', 'clear', '__setitem__'):
            muts.append(n)
    rebinds = [st for v, k, st in mdefs.get(mname, []) if not (isinstance(v, ast.Call) and last_attr(v) == 'apply_decisions')]
    ok = not muts and not rebinds
    ctx.inst('R09.12', mf.MNB + ':merge_notebooks', '%s = apply_decisions(...); later stores: %d, rebindings: %d' % (mname, len(muts), len(rebinds)), ok,
             'what is returned is exactly what the returned decisions produce' if ok else
             'the merged notebook is edited after the decisions were applied (%s): applying the returned decisions to base no longer gives the returned notebook' % (
                 repo.norm((muts or rebinds)[0])[:80]), (muts or rebinds)[0] if (muts or rebinds) else mn)
    from .c05 import sides_compared_strictly
    sides_compared_strictly(ctx, 'R09.13')


from .extra import with_extra  # noqa: E402
run = with_extra('C09', run)
