"""C20 -- web API agrees with the library and writes only where told at start-up."""
import ast

from ..core import AnalysisError, dotted, FuncTypes, walk_no_nested
from ..cfg import CFG, cond_guards
from ..util import calls_in, local_defs, depends_on, names_in, const_val, NOVAL, truth_under
from ..taint import Taint
from .. import facts

ASSUMPTIONS = [
    'tornado dispatches requests only to the HTTP-verb methods of the routed handler classes; self.params is the '
    'dict fixed in make_app/init_app (checked: never stored to outside initialize)',
    'HTTP semantics, concurrency between requests and third-party handlers (jupyter_server base classes) are not analysed',
    'agreement of the served diff/decisions with the library is decided only as wiring (same objects passed through), not by execution',
]

SRV = 'nbdime.webapp.nbdimeserver'
ALLOWED_NARROW_HANDLERS = {
    # exception type (last dotted component) -> reason it may complete normally
    'NotJSONError': 'empty base file in mergetool mode is read as a minimal notebook (re-raised unless the file is empty)',
    'MissingArgumentError': 'close handler falls back to the JSON body for the exit code',
    'JSONDecodeError': 'close handler falls back to the header/default exit code',
    'AttributeError': 'mathjax_config polyfill for old notebook versions',
    'ImportError': 'optional IdentityProvider import at app construction',
    'ModuleNotFoundError': 'optional checkpoint mixin imports at module import',
}


def is_request_source(node, fn):
    if isinstance(node, ast.Attribute) and node.attr == 'request' and dotted(node.value) == 'self':
        return True
    if isinstance(node, ast.Call) and isinstance(node.func, ast.Attribute) and dotted(node.func.value) == 'self' and \
            node.func.attr in ('get_argument', 'get_arguments', 'get_body_argument', 'get_body_arguments',
                               'get_query_argument', 'get_query_arguments', 'get_json_body', 'get_cookie',
                               'get_secure_cookie', 'decode_argument'):
        return True
    if isinstance(node, ast.Attribute) and node.attr in ('path_args', 'path_kwargs') and dotted(node.value) == 'self':
        return True
    return False


def _run_base(ctx):
    global _CTX
    _CTX = ctx
    repo, cg = ctx.repo, ctx.cg
    ctx.rule('R20.1', 'no file-system write sink reachable from a request handler takes a path derived from the request '
             '(taint: self.request, get_argument*, handler path args); temp-dir-rooted sinks are exempt', floor=3)
    ctx.rule('R20.2', 'the store sink is dominated by a refusal (HTTPError) when no output file was fixed at start-up', floor=1)
    ctx.rule('R20.3', 'loop stop / process exit reachable from a handler only in the close handler behind the closable gate; '
             'closable defaults to False; handler parameters are never written at request time', floor=4)
    ctx.rule('R20.4', 'diff/merge/GET endpoints reach no persistent file-system sink', floor=7)
    ctx.rule('R20.5', 'wiring: diff endpoint returns the base it diffed with diff_notebooks(base, remote); merge endpoint returns '
             'decide_notebook_merge(base, local, remote) under mergetool strategy; every route gets the base_url prefix', floor=4)
    ctx.rule('R20.6', 'errors map to error statuses: broad handlers re-raise as HTTPError>=400; narrow handlers only from a frozen table', floor=5)
    ctx.rule('R20.8', 'file-like notebook arguments fixed at start-up (git blob streams of the diff tool) are rewound before each read, so later requests are answered as the first', floor=1)
    ctx.rule('R20.7', 'a malformed store request changes nothing on disk: the request is parsed and converted before the output file is opened; only the write happens while it is open', floor=1)

    mods = (SRV,) if ctx.tier == 'quick' else (SRV, 'nbdime.webapp.nb_server_extension')
    handlers = facts.http_handlers(repo, cg, modules=(SRV, 'nbdime.webapp.nb_server_extension'))
    handlers_q = [h for h in handlers if h.split(':')[0] in mods]
    reach = cg.reachable(handlers_q)
    tn = Taint(ctx, is_request_source, reach)
    ctx.extra['handlers'] = handlers_q
    ctx.extra['functions_reachable_from_handlers'] = len(reach)
    ctx.extra['tainted_parameters_in_webapp'] = sorted('%s(%s)' % p for p in tn.tainted_params if '.webapp.' in p[0])
    ctx.extra['tainted_parameters_total'] = len(tn.tainted_params)

    # ---------------------------------------------------------------- R20.1 / R20.4
    sink_by_fn = {}
    for fid in sorted(reach):
        fn = repo.functions[fid]
        for call, what, paths in facts.fs_sinks(repo, cg, fn):
            sink_by_fn.setdefault(fid, []).append((call, what, paths))
    persistent = {}     # fid -> list of sinks not rooted in a temp dir
    for fid, sinks in sorted(sink_by_fn.items()):
        fn = repo.functions[fid]
        defs = local_defs(fn)
        for call, what, paths in sinks:
            temp = bool(paths) and all(depends_on(fn, p, lambda n: isinstance(n, ast.Call) and
                                                  (dotted(n.func) or '').split('.')[-1] in ('mkdtemp', 'mkstemp', 'TemporaryDirectory', 'NamedTemporaryFile'), defs)
                                       is not None for p in paths)
            why = None
            for p in paths:
                why = why or tn.why(fn, p)
            if why:
                ctx.inst('R20.1', fid, '%s  path=%s' % (what, '; '.join(repo.norm(p) for p in paths)), False,
                         'the location written is derived from the request: %s' % why, call)
            else:
                ctx.inst('R20.1', fid, '%s  path=%s' % (what, '; '.join(repo.norm(p) for p in paths)), True,
                         ('temp-dir rooted (named exemption)' if temp else
                          'path derives only from start-up parameters / constants (no request data flows into it)'), call)
            if not temp:
                persistent.setdefault(fid, []).append((call, what))
    store = SRV + ':ApiMergeStoreHandler.post'
    if store not in persistent:
        raise AnalysisError('the store handler has no file-system sink any more (anchor moved)')
    for h in handlers_q:
        if h == store:
            continue
        r = cg.reachable([h])
        bad = [(f, s) for f in r for s in persistent.get(f, [])]
        ok = not bad
        ctx.inst('R20.4', h, 'reaches %d persistent file-system sink(s)' % len(bad), ok,
                 'read-only endpoint: only temp-dir sinks (external renderers) are reachable' if ok else
                 'endpoint can write to disk: %s in %s via %s' % (bad[0][1][1], bad[0][0], ' -> '.join(cg.path([h], bad[0][0]) or [])),
                 bad[0][1][0] if bad else repo.functions[h])

    # the store endpoint has exactly ONE place it writes to: the output file fixed at start-up
    n_store_sinks = len(persistent.get(store, []))
    ctx.inst('R20.4', store, '%d persistent file-system sink(s): %s' % (n_store_sinks, [w for c, w in persistent.get(store, [])]), n_store_sinks == 1,
             'the output file only' if n_store_sinks == 1 else
             ('no write at all' if n_store_sinks == 0 else 'the endpoint writes to more than the output file (a backup / side file next to it): the working directory changes beyond the one '
              'location the server was started with'), persistent[store][-1][0] if persistent.get(store) else repo.func(store))
    # ---------------------------------------------------------------- R20.2
    fn = repo.func(store)
    g = CFG(fn)
    defs = local_defs(fn)
    for call, what in persistent[store]:
        st = repo.stmt_of(call)
        paths = [p for c, w, ps in sink_by_fn[store] if c is call for p in ps]
        ok, why = False, 'no refusal guards the write'
        for t, pol in cond_guards(g, st):
            v, truthy_when = _truthiness(t)
            if v is None:
                continue
            if truthy_when != pol:
                continue
            # the guarded name must feed the path and come from start-up params
            if not any(depends_on(fn, p, lambda n: isinstance(n, ast.Name) and n.id == v, defs) is not None for p in paths):
                continue
            src = depends_on(fn, ast.Name(id=v, ctx=ast.Load()), lambda n: isinstance(n, ast.Attribute) and n.attr == 'params', defs)
            # the other branch must raise an HTTPError
            ifn = [s for s in g.stmts() if isinstance(s, ast.If) and s.test is t]
            refuse = ifn and _raises_http_error(ifn[0].body if pol is False else ifn[0].orelse)
            if src is not None and refuse:
                ok, why = True, 'write happens only when %s (from self.params) is set; otherwise HTTPError is raised' % v
        ctx.inst('R20.2', store, '%s guarded by output-file test' % what, ok, why, call)

    # ---------------------------------------------------------------- R20.7 malformed store request changes nothing on disk
    for call, what in persistent[store]:
        st = repo.stmt_of(call)
        if not isinstance(st, ast.With):
            continue
        late = []
        for s2 in g.stmts():
            if s2 is st or s2 in list(ast.walk(st)):
                continue
            if isinstance(s2, (ast.Assign, ast.Expr)) and tn.why(fn, s2.value if hasattr(s2, 'value') else s2):
                if not g.dominated_by(st, [s2]) and g.dominated_by(s2, [st]):
                    late.append(s2)
        inner = [c for b in st.body for c in calls_in(b)]
        # only writes of an already serialised text: nbformat.write / json.dump serialise while the (already truncated) file is open and fail for a value that is not a notebook
        inner_bad = [c for c in inner if not ((dotted(c.func) or '').endswith('.write') and (dotted(c.func) or '') not in ('nbformat.write',) or (dotted(c.func) or '').endswith('.endswith'))]
        pre = [s2 for s2 in g.stmts() if isinstance(s2, ast.Assign) and tn.why(fn, s2.value) and g.dominated_by(st, [s2])]
        ok = not late and not inner_bad and bool(pre)
        ctx.inst('R20.7', store, 'request parsed (%d statement(s)) before %s; body of the with: %s' % (len(pre), what, [dotted(c.func) for c in inner]), ok,
                 'a malformed body / missing key fails before the output file is opened (truncated)' if ok else
                 ('request data is parsed after the output file has been opened for writing: a malformed request truncates it' if late or not pre else
                  'the notebook is serialised while the output file is already open (truncated): a `merged` value that is not a notebook ("oops", [], 5) makes the serialiser raise -- '
                  'status 500, but the previously stored merge result is gone: %s' % [ast.unparse(c)[:40] for c in inner_bad]), st)

    # ---------------------------------------------------------------- R20.8 start-up streams are rewound before every read
    def is_startup(node, fn_):
        return isinstance(node, ast.Attribute) and node.attr == 'params' and dotted(node.value) == 'self'
    sreach = set()
    for cid, c in repo.classes.items():
        if cid.split(':')[0] in mods and cg.is_handler_class(cid):
            for stn in c.body:
                if isinstance(stn, FuncTypes):
                    sreach.add(repo.fid_of(stn))
    st_taint = Taint(ctx, is_startup, sreach)
    n_reads = 0
    for fid_ in sorted(sreach):
        fn_ = repo.functions[fid_]
        g_ = None
        for c in calls_in(fn_, nested=False):
            dn = dotted(c.func) or ''
            target = None
            if dn in ('nbformat.read',) and c.args:
                target = c.args[0]
            elif isinstance(c.func, ast.Attribute) and c.func.attr in ('read', 'readlines', 'readline') and isinstance(c.func.value, ast.Name):
                target = c.func.value
            if target is None or not isinstance(target, ast.Name):
                continue
            if not st_taint.why(fn_, target):
                continue
            g_ = g_ or CFG(fn_)
            stc = repo.stmt_of(c)
            guards = cond_guards(g_, stc)
            # a str argument is a file name: nbformat opens it afresh
            is_str = any(truth_under(t, pol, lambda e: isinstance(e, ast.Call) and dotted(e.func) == 'isinstance' and len(e.args) == 2 and
                                     dotted(e.args[0]) == target.id and dotted(e.args[1]) == 'str') is True for t, pol in guards)
            maybe_stream = any(truth_under(t, pol, lambda e: isinstance(e, ast.Call) and dotted(e.func) == 'isinstance' and len(e.args) == 2 and
                                           dotted(e.args[0]) == target.id and dotted(e.args[1]) == 'str') is False for t, pol in guards) or \
                any(isinstance(x, ast.Call) and dotted(x.func) == 'hasattr' and x.args and dotted(x.args[0]) == target.id
                    for t, pol in guards for x in ast.walk(t))
            if is_str or not maybe_stream:
                continue
            n_reads += 1
            seeks = [s2 for s2 in g_.stmts() if isinstance(s2, ast.Expr) and isinstance(s2.value, ast.Call) and isinstance(s2.value.func, ast.Attribute)
                     and s2.value.func.attr == 'seek' and dotted(s2.value.func.value) == target.id and s2.value.args and const_val(s2.value.args[0]) == 0]
            ok = any(g_.dominated_by(stc, [s2]) for s2 in seeks)
            ctx.inst('R20.8', fid_, repo.norm(c), ok,
                     'the stream handed over at start-up is rewound (seek(0)) before it is read for this request' if ok else
                     'a file-like object fixed at start-up is read without rewinding: the first request consumes it, every later identical request fails or reads nothing', c)
    if n_reads == 0:
        raise AnalysisError('no read of a start-up stream found in the handlers (anchor moved)')

    # ---------------------------------------------------------------- R20.3
    stops = []
    # methods tornado itself calls on a handler around every request (also for error responses) are entry points too
    LIFECYCLE = ('prepare', 'on_finish', 'on_connection_close', 'write_error', 'set_default_headers', 'finish', 'send_error', 'data_received')
    hooks = set()
    for cid, c_ in repo.classes.items():
        if cid.split(':')[0] in (SRV,) + (('nbdime.webapp.nb_server_extension',) if ctx.tier == 'thorough' else ()) and cg.is_handler_class(cid):
            for m_ in c_.body:
                if isinstance(m_, FuncTypes) and m_.name in LIFECYCLE:
                    hooks.add(repo.fid_of(m_))
    for fid in sorted(set(reach) | set(cg.reachable(sorted(hooks))) if hooks else sorted(reach)):
        fn_ = repo.functions[fid]
        for c in calls_in(fn_, nested=False):
            names = [t[1] for t in cg.resolve(c.func, fn_) if t[0] == 'ext']
            d = dotted(c.func) or ast.unparse(c.func)
            if any(n in ('sys.exit', 'os._exit', 'os.kill', 'os.abort', 'builtins.exit', 'builtins.quit', 'signal.raise_signal') for n in names) \
                    or d in ('exit', 'quit'):
                stops.append((fid, c, 'process exit'))
            elif isinstance(c.func, ast.Attribute) and c.func.attr in ('stop', 'close', 'add_callback_from_signal') and \
                    any(isinstance(n, (ast.Name, ast.Attribute)) and (dotted(n) or '').split('.')[-1] in ('ioloop', 'IOLoop', 'io_loop')
                        for n in ast.walk(c.func.value)):
                stops.append((fid, c, 'event-loop stop'))
    close = SRV + ':ApiCloseHandler.post'
    repo.func(close)
    if not stops:
        raise AnalysisError('no loop stop / process exit found in any handler (anchor moved)')
    for fid, c, what in stops:
        if fid != close:
            # sys.exit in argument-parsing helpers reached through the merge-args exemption is start-up style code
            p = cg.path(handlers_q, fid) or cg.path(sorted(hooks), fid)
            ctx.inst('R20.3', fid, '%s: %s' % (what, repo.norm(c)), False,
                     'a request can stop the server outside the gated close handler%s: %s' % (
                         ' (tornado calls this hook after EVERY response of the handler, error responses included, so the closable gate in post() does not protect it)'
                         if fid in hooks else '', ' -> '.join(p or [fid])), c, extra={'path': p})
            continue
        fn_ = repo.functions[fid]
        g_ = CFG(fn_)
        st = repo.stmt_of(c)
        ok = False
        for t, pol in cond_guards(g_, st):
            if 'closable' in [x.value for x in ast.walk(t) if isinstance(x, ast.Constant)]:
                tw = _true_when(t)
                if tw is not None and tw == pol and any(isinstance(x, ast.Attribute) and x.attr == 'params' for x in ast.walk(t)):
                    ifn = [s for s in g_.stmts() if isinstance(s, ast.If) and s.test is t][0]
                    if _raises_http_error(ifn.body if pol is False else ifn.orelse):
                        ok = True
        ctx.inst('R20.3', fid, '%s: %s' % (what, repo.norm(c)), ok,
                 'dominated by the branch on which params[closable] is True; the other branch raises HTTPError' if ok else
                 'loop stop is not dominated by the closable gate', c)
    # closable default False wherever it is a parameter; stores of the key derive from it
    for fid in (SRV + ':init_app', SRV + ':main_server'):
        fn_ = repo.func(fid)
        a = fn_.args
        pos = a.posonlyargs + a.args
        dflt = dict(zip([p.arg for p in pos[len(pos) - len(a.defaults):]], a.defaults))
        d = dflt.get('closable')
        ok = isinstance(d, ast.Constant) and d.value is False
        ctx.inst('R20.3', fid, 'closable=%s' % (ast.unparse(d) if d is not None else '<required>'), ok or d is None,
                 'sessions are not closable unless the starter says so' if (ok or d is None) else
                 'closable defaults to a truthy value: every plain server can be shut down remotely', fn_)
    # handler params never written at request time
    for cid, c in sorted(repo.classes.items()):
        if cid.split(':')[0] not in mods or not cg.is_handler_class(cid):
            continue
        for stn in c.body:
            if not isinstance(stn, FuncTypes) or stn.name == 'initialize':
                continue
            for n in walk_no_nested(stn):
                tg = []
                if isinstance(n, ast.Assign):
                    tg = n.targets
                elif isinstance(n, ast.AugAssign):
                    tg = [n.target]
                elif isinstance(n, ast.Delete):
                    tg = n.targets
                bad = None
                for t in tg:
                    base = t.value if isinstance(t, (ast.Subscript, ast.Attribute)) else None
                    if isinstance(t, ast.Attribute) and t.attr == 'params' and dotted(t.value) == 'self':
                        bad = n
                    if base is not None and isinstance(base, ast.Attribute) and base.attr == 'params' and dotted(base.value) == 'self':
                        bad = n
                if isinstance(n, ast.Call) and isinstance(n.func, ast.Attribute) and n.func.attr in facts.MUTATORS and \
                        isinstance(n.func.value, ast.Attribute) and n.func.value.attr == 'params' and dotted(n.func.value.value) == 'self':
                    bad = n
                if bad is not None:
                    ctx.inst('R20.3', repo.fid_of(stn), repo.norm(bad), False,
                             'start-up parameters (output file, closable, cwd) are modified at request time', bad)
    ctx.inst('R20.3', SRV + ':<handler classes>', 'self.params is only assigned in initialize()', True,
             'no handler method stores into or mutates self.params', repo.cls(SRV + ':NbdimeHandler'), nontrivial=True)

    # ---------------------------------------------------------------- R20.5
    dfn = repo.func(SRV + ':ApiDiffHandler.post')
    _wiring(ctx, dfn, SRV + ':ApiDiffHandler.post', 'nbdime.diffing.notebooks:diff_notebooks', ['base', 'remote'], 'diff', 'base')
    mfn = repo.func(SRV + ':ApiMergeHandler.post')
    _wiring(ctx, mfn, SRV + ':ApiMergeHandler.post', 'nbdime.merging.notebooks:decide_notebook_merge',
            ['base', 'local', 'remote'], 'merge_decisions', 'base')
    ms = [n for n in walk_no_nested(mfn) if isinstance(n, ast.Assign) and isinstance(n.targets[0], ast.Attribute)
          and n.targets[0].attr == 'merge_strategy']
    ok = len(ms) == 1 and const_val(ms[0].value) == 'mergetool'
    ctx.inst('R20.5', SRV + ':ApiMergeHandler.post', repo.norm(ms[0]) if ms else '<no merge_strategy assignment>', ok,
             'web tool receives open conflicts (strategy mergetool)' if ok else 'merge endpoint does not use the mergetool strategy', mfn)
    ma = repo.func(SRV + ':make_app')
    g = CFG(ma)
    apps = [c for c in calls_in(ma, nested=False) if (dotted(c.func) or '').endswith('Application')]
    if not apps:
        raise AnalysisError('web.Application(...) not found in make_app')
    hv = dotted(apps[0].args[0]) if apps[0].args else None
    comps = [n for n in walk_no_nested(ma) if isinstance(n, ast.Assign) and dotted(n.targets[0]) == hv and
             isinstance(n.value, ast.ListComp)]
    ok = False
    why = 'no prefixing comprehension over the handler list'
    if comps:
        cpr = comps[0]
        gen = cpr.value.generators[0]
        # in place (handlers = [... for ... in handlers], under base_url != '/') or from a route table (handlers = [(prefix + p, h, params) for p, h in routes])
        in_place = dotted(gen.iter) == hv
        table = isinstance(gen.iter, ast.Name) and (any(k == 'assign' and isinstance(v, (ast.List, ast.Tuple)) for v, k, st_ in local_defs(ma).get(gen.iter.id, [])) or
                                                    isinstance((repo.mod(SRV).assigns.get(gen.iter.id) or [None])[-1], (ast.List, ast.Tuple)))
        ok = (in_place or table) and not gen.ifs
        guards = cond_guards(g, cpr)
        mdefs = local_defs(ma)
        # the base URL: the parameter, or the local popped from the params under the key 'base_url'
        base_names = {'base_url'} | {nm for nm, ds in mdefs.items() for v, k, st_ in ds
                                     if any(isinstance(x, ast.Constant) and x.value == 'base_url' for x in ast.walk(v))}
        if in_place:
            ok = ok and any(pol and (base_names & names_in(t)) for t, pol in guards)
        elt = cpr.value.elt
        # the first element of each re-created route is <prefix> + <old pattern>: the prefix is a local derived from the base URL
        prefix_names = {nm for nm, ds in mdefs.items() for v, k, st_ in ds if k == 'assign' and (base_names & names_in(v))} | base_names
        ok = ok and isinstance(elt, ast.Tuple) and isinstance(elt.elts[0], ast.BinOp) and bool(prefix_names & names_in(elt.elts[0]))
        why = 'every route (no filter) is re-created with the prefix when base_url != "/"' if ok else \
            'the prefix is not applied to every route'
    ctx.inst('R20.5', SRV + ':make_app', repo.norm(comps[0]) if comps else '<none>', ok, why, comps[0] if comps else ma)

    # ---------------------------------------------------------------- R20.6
    for cid, c in sorted(repo.classes.items()):
        if cid.split(':')[0] not in mods or not cg.is_handler_class(cid):
            continue
        for stn in c.body:
            if not isinstance(stn, FuncTypes):
                continue
            fid = repo.fid_of(stn)
            for tr in [n for n in walk_no_nested(stn) if isinstance(n, ast.Try)]:
                for h in tr.handlers:
                    tname = 'BaseException' if h.type is None else (dotted(h.type) or ast.unparse(h.type))
                    last = tname.split('.')[-1]
                    ends_raise = _block_always_raises(h.body)
                    status_ok = True
                    for r in [n for n in ast.walk(h) if isinstance(n, ast.Raise) and isinstance(n.exc, ast.Call)]:
                        if (dotted(r.exc.func) or '').endswith('HTTPError') and r.exc.args:
                            v = const_val(r.exc.args[0])
                            status_ok = status_ok and isinstance(v, int) and v >= 400
                    if isinstance(h.type, ast.Tuple):
                        broad = False
                        narrow_ok = False
                    else:
                        broad = last in ('Exception', 'BaseException')
                        narrow_ok = last in ALLOWED_NARROW_HANDLERS
                    ok = (ends_raise and status_ok) or (not broad and narrow_ok)
                    ctx.inst('R20.6', fid, 'except %s: ... %s' % (tname, 'raise' if ends_raise else 'completes normally'), ok,
                             ('re-raised as an error status' if ends_raise else ALLOWED_NARROW_HANDLERS.get(last, '')) if ok else
                             'handler for %s completes normally: a failed request is answered as a success' % tname, h)
    # library calls wrapped in 500
    for fid, callee in ((SRV + ':ApiDiffHandler.post', 'nbdime.diffing.notebooks:diff_notebooks'),
                        (SRV + ':ApiMergeHandler.post', 'nbdime.merging.notebooks:decide_notebook_merge')):
        fn_ = repo.func(fid)
        calls = [c for c in calls_in(fn_, nested=False) if ('func', callee) in cg.resolve(c.func, fn_)]
        if not calls:
            raise AnalysisError('%s no longer calls %s' % (fid, callee))
        tr = repo.enclosing(calls[0], (ast.Try,))
        ok = tr is not None and any((h.type is None or (dotted(h.type) or '').split('.')[-1] in ('Exception', 'BaseException'))
                                    and _block_always_raises(h.body) for h in tr.handlers)
        ctx.inst('R20.6', fid, 'try: %s except Exception: raise HTTPError' % repo.norm(calls[0]), ok,
                 'library failure is mapped to an error status' if ok else 'library call is not wrapped into an HTTP error', calls[0])


def _truthiness(t):
    """test -> (name, polarity of test under which name is truthy/not None) or (None, None)."""
    if isinstance(t, ast.Name):
        return t.id, True
    if isinstance(t, ast.UnaryOp) and isinstance(t.op, ast.Not) and isinstance(t.operand, ast.Name):
        return t.operand.id, False
    if isinstance(t, ast.Compare) and isinstance(t.left, ast.Name) and isinstance(t.comparators[0], ast.Constant) and \
            t.comparators[0].value is None:
        if isinstance(t.ops[0], ast.Is):
            return t.left.id, False
        if isinstance(t.ops[0], ast.IsNot):
            return t.left.id, True
    return None, None


def _true_when(t):
    """For a test about a flag X: returns the polarity of the test under which X is True, or None."""
    if isinstance(t, ast.Compare) and isinstance(t.comparators[0], ast.Constant) and t.comparators[0].value is True:
        if isinstance(t.ops[0], (ast.Is, ast.Eq)):
            return True
        if isinstance(t.ops[0], (ast.IsNot, ast.NotEq)):
            return False
    if isinstance(t, ast.UnaryOp) and isinstance(t.op, ast.Not):
        r = _true_when(t.operand)
        return None if r is None else (not r)
    if isinstance(t, (ast.Call, ast.Subscript, ast.Attribute, ast.Name)):
        return True
    return None


def _raises_http_error(body):
    return any(isinstance(s, ast.Raise) and isinstance(s.exc, ast.Call) and (dotted(s.exc.func) or '').endswith('HTTPError')
               for s in body)


_CTX = None


def _block_always_raises(body):
    if not body:
        return False
    last = body[-1]
    if isinstance(last, ast.Raise):
        return True
    if isinstance(last, ast.If) and last.orelse:
        return _block_always_raises(last.body) and _block_always_raises(last.orelse)
    if isinstance(last, ast.Expr) and isinstance(last.value, ast.Call) and _CTX is not None:
        # a call to a package function none of whose paths returns normally
        repo, cg = _CTX.repo, _CTX.cg
        fn = repo.func_of(last)
        ts = [t for t in cg.resolve(last.value.func, fn) if t[0] == 'func']
        if ts and all(CFG(repo.functions[t[1]]).EXIT not in CFG(repo.functions[t[1]]).reachable(CFG(repo.functions[t[1]]).ENTRY) for t in ts):
            return True
    return False


def _wiring(ctx, fn, fid, callee, argnames, result_key, base_key):
    repo, cg = ctx.repo, ctx.cg
    defs = local_defs(fn)
    calls = [c for c in calls_in(fn, nested=False) if ('func', callee) in cg.resolve(c.func, fn)]
    if len(calls) != 1:
        raise AnalysisError('%s: expected exactly one call of %s' % (fid, callee))
    call = calls[0]
    # arguments come from get_notebook_argument('<name>') in order
    ok = len(call.args) >= len(argnames)
    got = []
    for a, want in zip(call.args, argnames):
        src = depends_on(fn, a, lambda n: isinstance(n, ast.Call) and isinstance(n.func, ast.Attribute) and
                         n.func.attr == 'get_notebook_argument', defs)
        lit = const_val(src.args[0]) if src is not None and src.args else None
        got.append(lit)
        ok = ok and lit == want
    ctx.inst('R20.5', fid, repo.norm(call), ok,
             'library is called with the notebooks named %s in the request, in that order' % argnames if ok else
             'arguments of the library call come from %s instead of %s' % (got, argnames), call)
    fin = [c for c in calls_in(fn, nested=False) if isinstance(c.func, ast.Attribute) and c.func.attr == 'finish' and c.args]
    if not fin:
        raise AnalysisError('%s: no finish(data) call' % fid)
    data = fin[-1].args[0]
    dd = None
    if isinstance(data, ast.Dict):
        dd = data
    elif isinstance(data, ast.Name):
        for v, kind, st in defs.get(data.id, []):
            if isinstance(v, ast.Dict):
                dd = v
    ok = False
    why = 'response body is not a dict literal'
    if dd is not None:
        keys = {const_val(k): v for k, v in zip(dd.keys, dd.values)}
        res_ok = result_key in keys and depends_on(fn, keys[result_key], lambda n: n is call, defs) is not None \
            and isinstance(keys[result_key], ast.Name)
        base_ok = base_key in keys and dotted(keys[base_key]) is not None and dotted(keys[base_key]) == dotted(call.args[0])
        ok = res_ok and base_ok and set(keys) == {result_key, base_key}
        why = 'body = {%s: the object diffed as base, %s: the library result, unmodified}' % (base_key, result_key) if ok else \
            ('result is post-processed or not the library result' if not res_ok else 'the base returned is not the object that was diffed')
    ctx.inst('R20.5', fid, repo.norm(dd) if dd is not None else repo.norm(data), ok, why, fin[-1])


def last_attr_name(c):
    return c.func.attr if isinstance(c.func, ast.Attribute) else (c.func.id if isinstance(c.func, ast.Name) else None)


SHARED_EXEMPT = {'merge_args': 'the parsed merge arguments are the same constant argv for every request (first-request cache; see R12.5)'}


def run(ctx):
    """R20.9: requests do not leave state behind for later requests.

    `self.settings` (the tornado application settings) and `self.params` (the dict given to every handler at start-up) are
    shared by all requests.  A handler method that stores into them -- directly or through a container it fetched from them
    -- makes the answer to a later request depend on an earlier one (e.g. notebooks cached from the first read of a file
    that has since changed).  One named exemption: the cached constant merge arguments."""
    ctx.rule('R20.12', 'name binding: every global name a function refers to is bound at module level or builtin, and every local is assigned on every path before it is read', floor=4)
    ctx.rule('R20.11', 'every exactly resolved call binds against its callee\'s signature (no missing/unknown/surplus argument on any arm)', floor=2)
    ctx.rule('R20.10', 'a file that is not JSON is treated as an empty notebook only if it is empty: the re-raise is guarded by a pure emptiness test of what was read', floor=1)
    ctx.rule('R20.9', 'handler methods store nothing in state shared between requests (application settings, start-up params), except the constant merge arguments', floor=8)
    _run_base(ctx)
    repo, cg = ctx.repo, ctx.cg
    mods = ['nbdime.webapp.nbdimeserver'] + (['nbdime.webapp.nb_server_extension'] if ctx.tier == 'thorough' else [])
    SHARED = ('self.settings', 'self.params', 'self.application.settings', 'self.application')
    n = 0
    for cid, c in sorted(repo.classes.items()):
        if cid.split(':')[0] not in mods or not cg.is_handler_class(cid):
            continue
        for m in c.body:
            if not isinstance(m, FuncTypes) or m.name in ('initialize', '__init__'):
                continue
            n += 1
            fid = repo.fid_of(m)
            defs = local_defs(m)

            def shared_root(e, seen=()):
                """Does e denote a shared container (or something fetched from one)?  returns key/description or None"""
                d = dotted(e)
                if d in SHARED:
                    return d
                if isinstance(e, ast.Subscript):
                    r = shared_root(e.value, seen)
                    return ('%s[%s]' % (r, ast.unparse(e.slice))) if r else None
                if isinstance(e, ast.Call) and isinstance(e.func, ast.Attribute) and e.func.attr in ('get', 'setdefault'):
                    r = shared_root(e.func.value, seen)
                    return ('%s.%s(%s)' % (r, e.func.attr, ast.unparse(e.args[0]) if e.args else '')) if r else None
                if isinstance(e, ast.Name) and e.id not in seen:
                    for v, k, st in defs.get(e.id, []):
                        if k == 'assign':
                            r = shared_root(v, seen + (e.id,))
                            if r:
                                return r
                return None
            bad = []
            for a in walk_no_nested(m):
                tgts = []
                if isinstance(a, ast.Assign):
                    tgts = a.targets
                elif isinstance(a, ast.AugAssign):
                    tgts = [a.target]
                elif isinstance(a, ast.Delete):
                    tgts = a.targets
                for t in tgts:
                    if isinstance(t, ast.Subscript):
                        r = shared_root(t.value)
                        key = const_val(t.slice)
                        if r and not (r == 'self.settings' and key in SHARED_EXEMPT):
                            bad.append((a, '%s[%s]' % (r, ast.unparse(t.slice))))
                    elif isinstance(t, ast.Attribute) and dotted(t.value) in SHARED:
                        if t.attr == 'exit_code' and any(last_attr_name(c) == 'stop' for c in calls_in(m)):
                            continue    # named exemption: the close handler hands the exit status to the launcher and stops the loop in the same method
                        bad.append((a, dotted(t)))
                if isinstance(a, ast.Call) and isinstance(a.func, ast.Attribute) and a.func.attr in facts.MUTATORS:
                    r = shared_root(a.func.value)
                    if r and not (a.func.attr == 'setdefault' and a.args and const_val(a.args[0]) in SHARED_EXEMPT):
                        bad.append((a, '%s.%s(...)' % (r, a.func.attr)))
            ctx.inst('R20.9', fid, 'stores into shared state: %s' % ([b[1] for b in bad] or 'none'), not bad,
                     'the method leaves nothing behind for later requests' if not bad else
                     '%s is shared by all requests: what this request stores there (%s) is served to later requests, which are then no longer answered '
                     'as a fresh server would answer them' % (bad[0][1].split('[')[0].split('.setdefault')[0], repo.norm(bad[0][0])[:80]), bad[0][0] if bad else m)
    if n == 0:
        raise AnalysisError('no handler methods found')

    from ..util import empty_file_fallback_sites, pure_emptiness_test
    rn = repo.func('nbdime.webapp.nbdimeserver:NbdimeHandler.read_notebook')
    hs = empty_file_fallback_sites(rn)
    if not hs:
        raise AnalysisError('NbdimeHandler.read_notebook: no NotJSONError handler found')
    for h, sites in hs:
        if not sites:
            falls = not (h.body and isinstance(h.body[-1], ast.Raise))
            ctx.inst('R20.10', 'nbdime.webapp.nbdimeserver:NbdimeHandler.read_notebook', 'except NotJSONError without a content test', not falls,
                     'always re-raised' if not falls else 'every non-JSON file is accepted as an empty notebook', h)
        for x in sites:
            ok = pure_emptiness_test(x.test)
            ctx.inst('R20.10', 'nbdime.webapp.nbdimeserver:NbdimeHandler.read_notebook', 'if %s: raise' % repo.norm(x.test), ok,
                     'only a file with no content at all falls back to an empty notebook' if ok else
                     'the test transforms what was read before deciding: files that are not empty (e.g. whitespace followed by garbage) are answered with 200 '
                     'and an empty notebook instead of an error status', x)
    from ..signatures import call_compat
    call_compat(ctx, 'R20.11', ['nbdime.webapp.'] if ctx.tier == 'quick' else ['nbdime.'], 'the request is answered with 500 although it is valid')
    from ..names import name_binding
    name_binding(ctx, 'R20.12', ['nbdime.webapp.'] if ctx.tier == 'quick' else ['nbdime.'])


from .extra import with_extra  # noqa: E402
run = with_extra('C20', run)
