"""C06 -- changes to different cells merge cleanly into exactly both sets of changes (structure of the pipeline only).

The guarantee itself is index arithmetic (chunk boundaries, removerange splitting, application order) and is NOT decided.
What is decided is that the pipeline such a merge travels through has the shape the guarantee needs -- each clause a
necessary condition (breaking it breaks disjoint merges for some input), each already a rule of C05/C09/C10, re-run here
on the current tree and reported under this property because a disjoint merge exercises exactly these and nothing else:

  chunk with changes on one side only  -> first reachable arm is the strategy-free one-sided arm, conflict=False  (R05.1)
  strategies                           -> never touch a decision that is not conflicted                           (R05.2)
  use-* strategy arms                  -> never shadow an arm that settles a non-conflict                          (R10.5)
  both sides' diffs                    -> always computed (no ==-shortcut that drops a type-only change)           (R09.9)
  decisions                            -> only added by the mergers, carry both sides' diffs, sorted once          (R09.10, R09.6, R09.3)
  application                          -> entries re-sorted by key keep input order at equal keys, so an inserted
                                          cell stays in front of the edited cell it was inserted before             (R09.8)
"""
from . import c05, c09, c10

ASSUMPTIONS = [
    'NOT decided: chunk boundary arithmetic (make_merge_chunks, split_diffs_on_boundaries), the offsets applied when decisions are '
    'applied in descending order, and that diffs of the two sides are correct (C01/C02) -- an off-by-one there is invisible to these rules',
    'the rules re-used here are necessary conditions of the disjoint-merge guarantee, not sufficient ones',
]

KEEP = {'R05.1', 'R05.2', 'R10.5', 'R09.9', 'R09.10', 'R09.6', 'R09.3', 'R09.8'}


def run(ctx):
    for mod in (c05, c09, c10):
        mod.run(ctx)
    ctx.instances[:] = [i for i in ctx.instances if i['rule'] in KEEP]
    ctx.findings[:] = [f for f in ctx.findings if f['rule'] in KEEP]
    for d in (ctx.rules, ctx.floors):
        for k in [k for k in d if k not in KEEP]:
            del d[k]


from .extra import with_extra  # noqa: E402
run = with_extra('C06', run)
