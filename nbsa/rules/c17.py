"""C17 -- diffing git revisions examines exactly what git reports; cwd restored.

Decides structural necessary conditions only (see DESIGN.md, C17); agreement with git over
all histories is not decided.
"""
import ast

from ..core import AnalysisError, dotted, walk_no_nested, FuncTypes
from ..cfg import CFG, cond_guards
from ..util import calls_in, call_name, depends_on, local_defs, names_in, param_names, truth_under

ASSUMPTIONS = [
    'GitPython diff() returns exactly the entries git reports for the given paths (not decided)',
    'os.getcwd()/os.chdir behave as documented; no other code changes cwd via C extensions',
    'agreement of the yielded pairs with `git diff --name-status` over all histories is behavioural and not decided',
]

GF = 'nbdime.gitfiles'


def is_call_to(cg, call, func, names):
    for t in cg.resolve(call.func, func):
        if t[0] == 'ext' and t[1] in names:
            return True
    return False


def _run_base(ctx):
    repo, cg = ctx.repo, ctx.cg
    ctx.rule('R17.1', 'every os.chdir is paired with a finally-restore of a value read from os.getcwd() before the change',
             floor=1, floor_what='utils.pushd')
    ctx.rule('R17.2', 'only notebooks; both sides filtered; symmetric null-file handling; side pairing of path/blob/ref',
             floor=6, floor_what='2 stream calls, 2 None-skips, None-return guard, 2 missing-file arms')
    ctx.rule('R17.3', 'git decides the file set: loop iterates <tree|index>.diff(other, paths); paths prefixed once',
             floor=3, floor_what='2 diff calls + 1 prefixing')
    ctx.rule('R17.5', 'repository discovery returns the sub-directory components outermost first (prefixing of path filters depends on it)', floor=1)
    ctx.rule('R17.4', 'ref/path disambiguation is total: resolve_diff_args returns a triple on every path; is_gitref conjuncts',
             floor=4)

    # ---------------------------------------------------------------- R17.1
    chdir_funcs = {}
    for fid, fn in repo.functions.items():
        for c in calls_in(fn, nested=False):
            if is_call_to(cg, c, fn, {'os.chdir', 'os.fchdir'}):
                chdir_funcs.setdefault(fid, []).append(c)
    for m in repo.modules.values():
        for n in ast.walk(m.tree):
            if isinstance(n, ast.Call) and repo.func_of(n) is None and dotted(n.func) in ('os.chdir',):
                ctx.inst('R17.1', m.name + ':<module>', repo.norm(n), False,
                         'module-level os.chdir changes the caller\'s working directory at import', n)
    for fid, calls in sorted(chdir_funcs.items()):
        fn = repo.functions[fid]
        defs = local_defs(fn)
        g = CFG(fn)

        def getcwd_origin(expr):
            return depends_on(fn, expr, lambda n: isinstance(n, ast.Call) and
                              is_call_to(cg, n, fn, {'os.getcwd', 'os.getcwdb'}), defs)
        restores = [c for c in calls if c.args and getcwd_origin(c.args[0]) is not None]
        forwards = [c for c in calls if c not in restores]
        for c in forwards:
            st = repo.stmt_of(c)
            # innermost try with a finally that contains a restore call
            ok, why = False, 'no enclosing try/finally restores the directory'
            for anc in repo.ancestors(c):
                if isinstance(anc, ast.Try) and anc.finalbody and \
                        any(repo.stmt_of(r) in _all_stmts(anc.finalbody) for r in restores) and \
                        st in _all_stmts(anc.body):
                    # the saved value must be read before the change
                    saved_ok = True
                    for r in restores:
                        if repo.stmt_of(r) not in _all_stmts(anc.finalbody):
                            continue
                        org = getcwd_origin(r.args[0])
                        org_st = repo.stmt_of(org)
                        if not g.dominated_by(st, [org_st]) or org_st is st:
                            saved_ok = False
                            why = 'os.getcwd() is not evaluated on every path before the chdir'
                    ok = saved_ok
                    if ok:
                        why = 'chdir inside try; finally restores a value read from os.getcwd() before the change'
                    break
                if isinstance(anc, FuncTypes):
                    break
            if not ok and not restores:
                fin = [x for x in calls if any(isinstance(a, ast.Try) and repo.stmt_of(x) in _all_stmts(a.finalbody)
                                               for a in repo.ancestors(x))]
                if fin and c not in fin:
                    why = ('finally restores %s, which does not originate from os.getcwd() '
                           '(restoring a constant such as os.curdir is a no-op)' % ast.unparse(fin[0].args[0]))
                if c in fin:
                    continue   # reported through the forward call
            ctx.inst('R17.1', fid, repo.norm(c), ok, why, c)

    # ---------------------------------------------------------------- R17.2
    fn = repo.func(GF + ':_get_diff_entry_stream')
    fid = GF + ':_get_diff_entry_stream'
    g = CFG(fn)
    params = [a.arg for a in fn.args.args + fn.args.kwonlyargs]
    if len(params) < 3:
        raise AnalysisError('_get_diff_entry_stream signature changed')
    # roles by use, not by position: the path is what is tested for the notebook suffix, the blob is what is read, the ref is what
    # is compared with the working-tree marker
    def _role(pred):
        hits = [p_ for p_ in params if any(pred(n, p_) for n in ast.walk(fn))]
        return hits[0] if len(hits) == 1 else None
    p_path = _role(lambda n, p_: isinstance(n, ast.Call) and isinstance(n.func, ast.Attribute) and n.func.attr == 'endswith' and dotted(n.func.value) == p_)
    p_blob = _role(lambda n, p_: isinstance(n, ast.Attribute) and n.attr == 'data_stream' and dotted(n.value) == p_)
    p_ref = _role(lambda n, p_: isinstance(n, ast.Compare) and dotted(n.left) == p_ and isinstance(n.ops[0], (ast.Is, ast.Eq)) and
                  (dotted(n.comparators[0]) or '').endswith('GitRefWorkingTree'))
    if None in (p_path, p_blob, p_ref):
        raise AnalysisError('_get_diff_entry_stream: the path / blob / ref parameters could not be told apart by their use')
    rets = [n for n in walk_no_nested(fn) if isinstance(n, ast.Return)]
    none_rets = [r for r in rets if r.value is None or (isinstance(r.value, ast.Constant) and r.value.value is None)]
    if not none_rets:
        raise AnalysisError('no `return None` (non-notebook filter) found in _get_diff_entry_stream')
    for r in none_rets:
        guards = cond_guards(g, r)
        ok = any(_is_ipynb_test(t, p_path) == (not pol) for t, pol in guards if _is_ipynb_test(t, p_path) is not None)
        ctx.inst('R17.2', fid, 'return None  [guards: %s]' % '; '.join(
            ('' if pol else 'not ') + '(' + ast.unparse(t) + ')' for t, pol in guards), ok,
            'None (= skip entry) is returned only for paths not ending in .ipynb' if ok else
            'an entry is skipped (None) for a reason other than "not a notebook"', r)
    # every notebook path must get past the filter: the .ipynb test must dominate all non-None returns
    # reachable with a truthy path
    ip_tests = [s for s in g.stmts() if isinstance(s, ast.If) and _is_ipynb_test(s.test, p_path) is not None]
    if not ip_tests:
        raise AnalysisError('no .endswith(\'.ipynb\') test in _get_diff_entry_stream')
    # no fall-through: function never completes without an explicit return
    implicit = [n for n in g.nodes if isinstance(n, ast.stmt) and not isinstance(n, ast.Return)
                and g.EXIT in g.succ.get(n, ())]
    implicit += [n for n in g.nodes if not isinstance(n, ast.AST) and n is not g.ENTRY and
                 g.EXIT in g.succ.get(n, ()) and not str(n).startswith('finally')]
    ctx.inst('R17.2', fid, 'all paths end in an explicit return', not implicit,
             'no path falls off the end (an implicit None would silently skip a changed notebook)' if not implicit
             else 'a path falls off the end and returns None implicitly', implicit[0] if implicit and isinstance(implicit[0], ast.AST) else fn)
    # missing blob -> EXPLICIT_MISSING_FILE ; falsy path -> EXPLICIT_MISSING_FILE
    blob_arm = None
    extra_disjuncts = []

    def _is_none_test(t):
        return isinstance(t, ast.Compare) and dotted(t.left) == p_blob and isinstance(t.ops[0], ast.Is) and \
            isinstance(t.comparators[0], ast.Constant) and t.comparators[0].value is None
    for s in g.stmts():
        if isinstance(s, ast.If):
            t = s.test
            if _is_none_test(t):
                blob_arm = s
            elif isinstance(t, ast.BoolOp) and isinstance(t.op, ast.Or) and any(_is_none_test(v) for v in t.values):
                blob_arm = s
                extra_disjuncts = [v for v in t.values if not _is_none_test(v)]
    if blob_arm is None:
        raise AnalysisError('`blob is None` arm not found in _get_diff_entry_stream')
    if extra_disjuncts:
        ctx.inst('R17.2', fid, repo.norm(blob_arm.test), False,
                 'the "no blob on this side" arm is also taken when `%s`: an entry git reports as present (a zero-length notebook, ...) is handed out as the null file, i.e. as an '
                 'addition or deletion git does not report' % ast.unparse(extra_disjuncts[0]), blob_arm)
    r = blob_arm.body[-1]
    ok = isinstance(r, ast.Return) and dotted(r.value) == 'EXPLICIT_MISSING_FILE'
    ctx.inst('R17.2', fid, repo.norm(blob_arm.test) + ' -> ' + repo.norm(r), ok,
             'a missing blob (added/deleted file) maps to the null file' if ok else
             'a missing blob does not map to the null file', r)
    # what is returned when the path is empty/None: every return that is not behind "path is truthy" (whatever the layout: if-nesting or guard clauses)
    is_path = lambda e: isinstance(e, ast.Name) and e.id == p_path
    falsy_rets = []
    for r_ in [n for n in walk_no_nested(fn) if isinstance(n, ast.Return)]:
        if any(truth_under(t, pol, is_path) is True for t, pol in cond_guards(g, r_)):
            continue
        falsy_rets.append(r_)
    if not falsy_rets:
        raise AnalysisError('_get_diff_entry_stream: no return reachable with an empty path')
    bad_ = [r_ for r_ in falsy_rets if dotted(r_.value) != 'EXPLICIT_MISSING_FILE']
    ok = not bad_
    last = (bad_ or falsy_rets)[0]
    ctx.inst('R17.2', fid, 'falsy path -> ' + repo.norm(last), ok,
             'an empty path maps to the null file' if ok else 'an empty path does not map to the null file', last)

    cn = repo.func(GF + ':changed_notebooks')
    cfid = GF + ':changed_notebooks'
    cg_ = CFG(cn)
    cparams = [a.arg for a in cn.args.args]
    stream_assigns = []
    for n in walk_no_nested(cn):
        if isinstance(n, ast.Assign) and isinstance(n.value, ast.Call) and \
                any(t == ('func', fid) for t in cg.resolve(n.value.func, cn)):
            stream_assigns.append(n)
    if len(stream_assigns) != 2:
        raise AnalysisError('expected 2 _get_diff_entry_stream calls in changed_notebooks, found %d' % len(stream_assigns))
    yields = [n for n in ast.walk(cn) if isinstance(n, ast.Yield)]
    if len(yields) != 1:
        raise AnalysisError('expected exactly one yield in changed_notebooks')
    y = yields[0]
    ystmt = repo.stmt_of(y)
    sides = []
    for a in stream_assigns:
        var = a.targets[0].id if isinstance(a.targets[0], ast.Name) else None
        # positional or keyword call: bind against the callee's parameter order
        gparams = [a_.arg for a_ in fn.args.args]
        bound = dict(zip(gparams, a.value.args))
        bound.update({k.arg: k.value for k in a.value.keywords if k.arg})
        args = [bound[r_] for r_ in (p_path, p_blob, p_ref) if r_ in bound]
        side_letters = set()
        for x in args[:2]:
            d = dotted(x) or ''
            if d.endswith('.a_path') or d.endswith('.a_blob'):
                side_letters.add('a')
            elif d.endswith('.b_path') or d.endswith('.b_blob'):
                side_letters.add('b')
            else:
                side_letters.add('?')
        ref = dotted(args[2]) if len(args) > 2 else None
        want_ref = {'a': cparams[0], 'b': cparams[1]}
        ok = len(side_letters) == 1 and '?' not in side_letters and ref == want_ref.get(next(iter(side_letters)))
        sides.append((var, next(iter(side_letters)) if len(side_letters) == 1 else '?'))
        ctx.inst('R17.2', cfid, repo.norm(a.value), ok,
                 'path, blob and ref of one call belong to the same side' if ok else
                 'path/blob/ref of different sides are mixed in one stream call', a)
        # None => continue, before the yield
        skip_ok = False
        for s in cg_.stmts():
            if isinstance(s, ast.If) and isinstance(s.test, ast.Compare) and dotted(s.test.left) == var and \
                    isinstance(s.test.ops[0], ast.Is) and isinstance(s.test.comparators[0], ast.Constant) and \
                    s.test.comparators[0].value is None and s.body and isinstance(s.body[-1], ast.Continue):
                if cg_.dominated_by(ystmt, [cg_.branch(s, False)]):
                    skip_ok = True
        ctx.inst('R17.2', cfid, 'if %s is None: continue  (dominates the yield)' % var, skip_ok,
                 'a non-notebook on this side is skipped before the pair is yielded' if skip_ok else
                 'the pair is yielded although this side may be None (non-notebook)', a)
    yv = y.value
    ok = isinstance(yv, ast.Tuple) and [dotted(e) for e in yv.elts] == [v for v, s in sorted(sides, key=lambda t: t[1])]
    ctx.inst('R17.2', cfid, repo.norm(y), ok, 'yields (base stream, remote stream) in that order' if ok else
             'yield does not pair (a-side, b-side) in order', y)
    # nothing but the two None-skips may prevent the yield inside the loop
    loop = repo.enclosing(y, (ast.For,))
    if loop is None:
        raise AnalysisError('yield of changed_notebooks is not inside a for loop')
    extra = []
    for s in _all_stmts(loop.body):
        if isinstance(s, (ast.Continue, ast.Break, ast.Return, ast.Raise)):
            p = repo.parent(s)
            if not (isinstance(p, ast.If) and isinstance(p.test, ast.Compare) and
                    dotted(p.test.left) in [v for v, _ in sides] and isinstance(p.test.ops[0], ast.Is)):
                extra.append(s)
    ctx.inst('R17.2', cfid, 'no filter besides the two None-skips between git\'s entry and the yield',
             not extra, 'every entry git reports reaches the yield unless it is a non-notebook' if not extra else
             'an additional %s drops entries git reported' % type(extra[0]).__name__.lower(),
             extra[0] if extra else loop)

    # ---------------------------------------------------------------- R17.3
    it = loop.iter
    defs = local_defs(cn)
    diff_calls = [c for c in calls_in(cn, nested=False)
                  if isinstance(c.func, ast.Attribute) and c.func.attr == 'diff']
    prod, prod_fid, roles = cn, cfid, {0: cparams[0], 1: cparams[1], 2: cparams[2] if len(cparams) > 2 else 'paths'}
    if not diff_calls:
        # the diff may have been moved into a helper whose result the loop iterates: analyse the helper with the roles mapped through the call
        hc = [c for c in ast.walk(it) if isinstance(c, ast.Call)] if not isinstance(it, ast.Name) else \
            [v for v, k, st in defs.get(it.id, []) if isinstance(v, ast.Call)]
        for c in hc:
            for t in cg.resolve(c.func, cn):
                if t[0] == 'func' and t[1] in repo.functions and t[1].startswith('nbdime.gitfiles:'):
                    h = repo.functions[t[1]]
                    hd = [x for x in calls_in(h, nested=False) if isinstance(x.func, ast.Attribute) and x.func.attr == 'diff']
                    if hd:
                        hp = [a.arg for a in h.args.args]
                        m = {}
                        for i, a in enumerate(c.args):
                            for k, nm in roles.items():
                                if isinstance(a, ast.Name) and a.id == nm and i < len(hp):
                                    m[k] = hp[i]
                        for kw in c.keywords:
                            for k, nm in roles.items():
                                if isinstance(kw.value, ast.Name) and kw.value.id == nm:
                                    m[k] = kw.arg
                        if len(m) == 3:
                            prod, prod_fid, roles, diff_calls = h, t[1], m, hd
    if not diff_calls:
        raise AnalysisError('no .diff(...) call in changed_notebooks (or in a helper whose result it iterates)')
    pdefs = local_defs(prod)
    if prod is cn:
        src = depends_on(cn, it, lambda n: n in diff_calls, defs)
        # every definition of the iterated name must be git's diff result
        if isinstance(it, ast.Name):
            others = [v for v, k, st in defs.get(it.id, []) if k == 'assign' and not any(x in diff_calls for x in ast.walk(v))]
            if others:
                src = None
    else:
        bad_rets = [r for r in walk_no_nested(prod) if isinstance(r, ast.Return) and
                    (r.value is None or depends_on(prod, r.value, lambda n: n in diff_calls, pdefs) is None)]
        src = None if bad_rets else True
        for r in bad_rets:
            ctx.inst('R17.3', prod_fid, repo.norm(r), False,
                     'this path hands back something other than git\'s diff result: under the guarding condition no notebook is examined although git reports changes '
                     '(a condition on the index/HEAD state says nothing about the two revisions compared)', r)
    ctx.inst('R17.3', cfid, 'for %s in %s' % (ast.unparse(loop.target), ast.unparse(it)), src is not None,
             'the loop iterates the result of <tree|index>.diff(...)' if src is not None else
             'the loop does not iterate git\'s diff result on every path', loop)
    p_paths = roles[2]
    for c in diff_calls:
        ok = len(c.args) >= 2 and dotted(c.args[1]) == p_paths and not c.keywords or \
            any(k.arg == 'paths' and dotted(k.value) == p_paths for k in c.keywords)
        recv_ok = depends_on(prod, c.func.value, lambda n: isinstance(n, ast.Name) and n.id == roles[0], pdefs) is not None \
            or depends_on(prod, c.func.value, lambda n: isinstance(n, ast.Attribute) and n.attr == 'index', pdefs) is not None
        other_ok = c.args and depends_on(prod, c.args[0], lambda n: isinstance(n, ast.Name) and n.id == roles[1], pdefs) is not None
        ctx.inst('R17.3', prod_fid, repo.norm(c), bool(ok and recv_ok and other_ok),
                 'base side diffed against remote side with the path filter forwarded' if ok and recv_ok and other_ok else
                 ('path filter not forwarded to git' if not ok else 'diff is not base-vs-remote'), c)
    p_paths = cparams[2] if len(cparams) > 2 else 'paths'
    # the local that receives the second component of get_repo(...): the sub-directory components split off while walking up
    popped_names = set()
    for a in walk_no_nested(cn):
        if isinstance(a, ast.Assign) and isinstance(a.targets[0], ast.Tuple) and len(a.targets[0].elts) == 2 and isinstance(a.value, ast.Call) and \
                (dotted(a.value.func) or '').split('.')[-1] == 'get_repo' and isinstance(a.targets[0].elts[1], ast.Name):
            popped_names.add(a.targets[0].elts[1].id)
    if not popped_names:
        raise AnalysisError('changed_notebooks: `repo, popped = get_repo(...)` not found')
    pref = [a for a in walk_no_nested(cn) if isinstance(a, ast.Assign) and
            any(isinstance(t, ast.Name) and t.id == p_paths for t in a.targets) and (popped_names & names_in(a.value))]
    ok = len(pref) == 1
    why = 'sub-directory prefix applied exactly once'
    if ok:
        guards = cond_guards(cg_, pref[0])
        gn = set()
        for t, pol in guards:
            if pol:
                gn |= names_in(t)
        ok = bool(popped_names & gn) and p_paths in gn
        if not ok:
            why = 'prefixing is not guarded by `paths and popped`'
    else:
        why = 'sub-directory prefix applied %d times' % len(pref)
    ctx.inst('R17.3', cfid, '; '.join(repo.norm(a) for a in pref) or '<no prefixing>', ok, why, pref[0] if pref else cn)

    # ---------------------------------------------------------------- R17.5 sub-directory components outermost first
    gr = repo.func(GF + ':get_repo')
    splits = [n for n in walk_no_nested(gr) if isinstance(n, ast.Assign) and isinstance(n.value, ast.Call) and dotted(n.value.func) == 'os.path.split'
              and isinstance(n.targets[0], ast.Tuple) and len(n.targets[0].elts) == 2]
    if len(splits) != 1:
        raise AnalysisError('get_repo: os.path.split walk not found')
    comp = splits[0].targets[0].elts[1].id
    acc = None
    how = None
    for n in walk_no_nested(gr):
        if isinstance(n, ast.Call) and isinstance(n.func, ast.Attribute) and n.args and any(isinstance(a, ast.Name) and a.id == comp for a in n.args):
            if n.func.attr == 'appendleft' or (n.func.attr == 'insert' and const_val_(n.args[0]) == 0):
                acc, how = dotted(n.func.value), 'prepend'
            elif n.func.attr == 'append':
                acc, how = dotted(n.func.value), 'append'
        if isinstance(n, ast.Assign) and isinstance(n.value, ast.BinOp) and isinstance(n.value.op, ast.Add):
            l, r = n.value.left, n.value.right
            if comp in names_in(l) and dotted(r) == dotted(n.targets[0]):
                acc, how = dotted(n.targets[0]), 'prepend'
            elif comp in names_in(r) and dotted(l) == dotted(n.targets[0]):
                acc, how = dotted(n.targets[0]), 'append'
    rets = [n for n in walk_no_nested(gr) if isinstance(n, ast.Return) and n.value is not None]
    reversed_on_return = any(acc and any((isinstance(x, ast.Call) and dotted(x.func) == 'reversed' and acc in names_in(x)) or
                                         (isinstance(x, ast.Subscript) and isinstance(x.slice, ast.Slice) and acc in names_in(x.value) and x.slice.step is not None)
                                         for x in ast.walk(r)) for r in rets)
    ok = how == 'prepend' and not reversed_on_return or how == 'append' and reversed_on_return
    ctx.inst('R17.5', GF + ':get_repo', 'components split off while walking up are %s to %s%s' % (how, acc, ' and reversed on return' if reversed_on_return else ''), ok,
             'the directory list is outermost-first, as the path prefix built from it requires' if ok else
             'the directories between the repository root and the start directory come back innermost-first: path filters from a directory nested two or more levels deep get a wrong prefix',
             splits[0])

    # ---------------------------------------------------------------- R17.4
    ra = repo.func('nbdime.args:resolve_diff_args')
    rg = CFG(ra)
    rets = [n for n in walk_no_nested(ra) if isinstance(n, ast.Return)]
    for r in rets:
        ok = isinstance(r.value, ast.Tuple) and len(r.value.elts) == 3
        ctx.inst('R17.4', 'nbdime.args:resolve_diff_args', repo.norm(r), ok,
                 'returns (base, remote, paths)' if ok else 'does not return a triple', r)
    fall = [n for n in rg.nodes if isinstance(n, ast.stmt) and not isinstance(n, ast.Return) and rg.EXIT in rg.succ.get(n, ())]
    fall += [b for b in rg.branches.values() if rg.EXIT in rg.succ.get(b, ())]
    ctx.inst('R17.4', 'nbdime.args:resolve_diff_args', 'no fall-through exit', not fall,
             'every path returns explicitly' if not fall else 'a path returns None implicitly (callers unpack 3 values)',
             ra)
    ig = repo.func(GF + ':is_gitref')
    p = ig.args.args[0].arg
    # truth table of is_gitref over its four observations, whatever the layout (one conjunction, guard clauses, nested ifs):
    #   N: candidate is None   E: os.path.exists(candidate)   M: candidate == EXPLICIT_MISSING_FILE   V: is_valid_gitref(candidate)
    import itertools as _it

    def _ev(e, env):
        if isinstance(e, ast.Constant) and isinstance(e.value, bool):
            return e.value
        if isinstance(e, ast.UnaryOp) and isinstance(e.op, ast.Not):
            return not _ev(e.operand, env)
        if isinstance(e, ast.BoolOp):
            vals = e.values
            if isinstance(e.op, ast.And):
                for v in vals:
                    if not _ev(v, env):
                        return False
                return True
            for v in vals:
                if _ev(v, env):
                    return True
            return False
        if isinstance(e, ast.Compare) and len(e.ops) == 1 and dotted(e.left) == p:
            r = e.comparators[0]
            if isinstance(r, ast.Constant) and r.value is None and isinstance(e.ops[0], (ast.Is, ast.Eq, ast.IsNot, ast.NotEq)):
                return env['N'] if isinstance(e.ops[0], (ast.Is, ast.Eq)) else not env['N']
            if (dotted(r) or '').endswith('EXPLICIT_MISSING_FILE') and isinstance(e.ops[0], (ast.Eq, ast.NotEq, ast.Is, ast.IsNot)):
                return env['M'] if isinstance(e.ops[0], (ast.Eq, ast.Is)) else not env['M']
        if isinstance(e, ast.Call) and len(e.args) >= 1 and dotted(e.args[0]) == p:
            names = {t[1] for t in cg.resolve(e.func, ig) if t[0] == 'ext'} | {dotted(e.func) or ''}
            if names & {'os.path.exists', 'os.path.lexists', 'os.path.isfile', 'os.path.isdir'}:
                if env['N']:
                    raise AnalysisError('is_gitref: os.path.exists is reached with candidate None (raises TypeError)')
                if names & {'os.path.isfile'}:
                    return env['E'] and not env['D']
                if names & {'os.path.isdir'}:
                    return env['E'] and env['D']
                return env['E']
            if any(t == ('func', GF + ':is_valid_gitref') for t in cg.resolve(e.func, ig)):
                return env['V']
        if isinstance(e, ast.Name) and e.id in env:
            return env[e.id]
        raise AnalysisError('is_gitref: expression `%s` not modelled' % ast.unparse(e)[:60])

    def _run(stmts, env):
        for st in stmts:
            if isinstance(st, ast.Expr) and isinstance(st.value, ast.Constant):
                continue
            if isinstance(st, ast.Return):
                return _ev(st.value, env) if st.value is not None else None
            if isinstance(st, ast.If):
                r = _run(st.body if _ev(st.test, env) else st.orelse, env)
                if r is not _FALL:
                    return r
                continue
            if isinstance(st, ast.Assign) and len(st.targets) == 1 and isinstance(st.targets[0], ast.Name):
                env[st.targets[0].id] = _ev(st.value, env)
                continue
            if isinstance(st, ast.Pass):
                continue
            raise AnalysisError('is_gitref: statement `%s` not modelled' % ast.unparse(st)[:60])
        return _FALL
    _FALL = object()
    wrong = {'file': [], 'null': [], 'ref': []}
    n_rows = 0
    for N, E, M, V, D in _it.product((False, True), repeat=5):
        if N and (E or M):
            continue        # None is neither an existing path nor the null-file marker
        if D and not E:
            continue        # D: what exists is a directory (nbdiff takes directory names as path filters)
        got = _run(ig.body, {'N': N, 'E': E, 'M': M, 'V': V, 'D': D})
        n_rows += 1
        want_ = (N or not E) and not M and V
        if got is _FALL or got is None or bool(got) != want_:
            row = 'N=%d E=%d dir=%d M=%d V=%d -> %s' % (N, E, D, M, V, 'falls off' if got is _FALL else got)
            wrong['file' if E and not want_ else 'null' if M else 'ref'].append(row)
    for key, what in (('file', 'not an existing file'), ('null', 'not the null file'), ('ref', 'valid git ref')):
        ok = not wrong[key]
        ctx.inst('R17.4', GF + ':is_gitref', 'conjunct: ' + what + '  [truth table over %d observation rows]' % n_rows, ok,
                 'present' if ok else 'is_gitref answers wrongly for %s: a file name / the null file could be taken for a git ref (or a ref for a file)' % wrong[key][:2], ig)


def const_val_(n):
    return n.value if isinstance(n, ast.Constant) else None


def _all_stmts(body):
    out = []
    for s in body:
        for n in ast.walk(s):
            if isinstance(n, ast.stmt):
                out.append(n)
    return out


def _is_ipynb_test(test, p_path):
    """returns True if test is `path.endswith('.ipynb')`, False if `not path.endswith('.ipynb')`, None otherwise."""
    neg = False
    t = test
    if isinstance(t, ast.UnaryOp) and isinstance(t.op, ast.Not):
        neg = True
        t = t.operand
    if isinstance(t, ast.Call) and isinstance(t.func, ast.Attribute) and t.func.attr == 'endswith' and \
            dotted(t.func.value) == p_path and t.args and isinstance(t.args[0], ast.Constant) and \
            t.args[0].value == '.ipynb':
        return not neg
    return None



BROAD_OS_ERRORS = {'IOError', 'OSError', 'EnvironmentError', 'Exception', 'BaseException'}


def worktree_streams(ctx, rule_a, rule_b):
    """R17.8: a notebook git reports as deleted from the working tree is mapped to the null file whatever the reason open() fails
    (ENOENT, but also ENOTDIR when a parent became a file, EISDIR when the path became a directory): the handler around the
    working-tree open must catch OSError/IOError, not a subclass.
    R17.9: every entry gets its own stream object: a StringIO has one read position and one name, so a stream handed out for
    one entry must not be handed out again (same blob on both sides of a rename, identical notebooks in two entries)."""
    repo = ctx.repo
    fn = repo.func(GF + ':_get_diff_entry_stream')
    opens = [c for c in calls_in(fn, nested=False) if dotted(c.func) in ('io.open', 'open')]
    if not opens:
        raise AnalysisError('_get_diff_entry_stream: working-tree open() not found')
    for c in opens:
        tr = repo.parent(repo.stmt_of(c))
        while tr is not None and not isinstance(tr, ast.Try):
            tr = repo.parent(tr)
        if tr is None:
            ctx.inst(rule_a, GF + ':_get_diff_entry_stream', repo.norm(c), False, 'the working-tree open is not inside a try: a deleted notebook aborts the listing', c)
            continue
        names = []
        for h in tr.handlers:
            if h.type is None:
                names.append('BaseException')
            else:
                names += [dotted(e) for e in (h.type.elts if isinstance(h.type, ast.Tuple) else [h.type])]
        ok = bool(set(names) & BROAD_OS_ERRORS)
        ctx.inst(rule_a, GF + ':_get_diff_entry_stream', 'open(...) except %s' % names, ok,
                 'any failure to open the working-tree file is treated as "deleted from the working tree"' if ok else
                 'only %s is caught: a path whose parent became a file (ENOTDIR) or that became a directory (EISDIR) is reported by git as deleted but makes '
                 'changed_notebooks raise, and the remaining entries are never examined' % names, c)
    defs = local_defs(fn)
    rets = [r for r in walk_no_nested(fn) if isinstance(r, ast.Return) and isinstance(r.value, ast.Name)]
    n = 0
    for r in rets:
        ds = [v for v, k, st in defs.get(r.value.id, []) if k == 'assign']
        if not ds:
            continue
        n += 1
        fresh = all(isinstance(v, ast.Call) and not (isinstance(v.func, ast.Attribute) and v.func.attr in ('get', 'pop', 'setdefault')) for v in ds)
        bad = next((v for v in ds if not (isinstance(v, ast.Call) and not (isinstance(v.func, ast.Attribute) and v.func.attr in ('get', 'pop', 'setdefault')))), None)
        ctx.inst(rule_b, GF + ':_get_diff_entry_stream', 'return %s  <- %s' % (r.value.id, [ast.unparse(v)[:50] for v in ds]), fresh,
                 'the stream returned is created by this very call' if fresh else
                 'the stream can come from a container shared between entries (%s): two entries with the same blob get ONE stream object -- one read position, '
                 'one .name -- so a pure rename yields (f, f) and the second read returns nothing' % ast.unparse(bad)[:50], r)
    if n == 0:
        raise AnalysisError('_get_diff_entry_stream: no returned stream variable found')

def run(ctx):
    ctx.rule('R17.8', 'a working-tree file that cannot be opened is a deletion whatever errno says: the handler catches OSError/IOError, not a subclass', floor=1)
    ctx.rule('R17.9', 'every diff entry gets a stream object created for it (no stream is shared between entries)', floor=1)
    ctx.rule('R17.7', 'name binding: every global name a function refers to is bound at module level or builtin, and every local is assigned on every path before it is read', floor=2)
    ctx.rule('R17.6', 'every exactly resolved call binds against its callee\'s signature (no missing/unknown/surplus argument on any arm)', floor=1)
    _run_base(ctx)
    from ..signatures import call_compat
    call_compat(ctx, 'R17.6', ['nbdime.gitfiles', 'nbdime.vcs.git.filter_integration'] if ctx.tier == 'quick' else ['nbdime.'], 'diffing git revisions aborts')
    from ..names import name_binding
    name_binding(ctx, 'R17.7', ['nbdime.gitfiles', 'nbdime.vcs.git.filter_integration'] if ctx.tier == 'quick' else ['nbdime.'])
    worktree_streams(ctx, 'R17.8', 'R17.9')


from .extra import with_extra  # noqa: E402
run = with_extra('C17', run)
