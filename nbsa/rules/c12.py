"""C12 -- diffing is a pure function of its inputs: no dependence on process history.

Effect analysis over module-level mutable state: explicit writes, implicit writes (lookup on an
auto-inserting table), key-sensitive readers, re-entrancy flags, memoised functions, reset helper,
and reachability of the configuration API from request handlers / library API.
"""
import ast

from ..core import AnalysisError, dotted, FuncTypes, walk_no_nested
from ..cfg import CFG, cond_guards
from ..util import calls_in, local_defs, depends_on, names_in
from .. import facts

ASSUMPTIONS = [
    'module-level state is only reached through names/attributes the resolver can follow (registry tables, '
    'parameter flow, default-argument aliases); state hidden in C extensions or third-party libraries is not analysed',
    'dict ordering / hash seeds and lru_cache eviction timing do not influence results (R12.3 makes eviction irrelevant)',
    'equality of the N-th answer with a fresh process is implied only for the state enumerated in evidence.globals',
]

CONFIG_API = ['nbdime.diffing.notebooks:set_notebook_diff_ignores',
              'nbdime.diffing.notebooks:set_notebook_diff_targets',
              'nbdime.diffing.notebooks:reset_notebook_differ',
              'nbdime.config:config_instance']


def aliases(ctx, G, expr, fn, via_default=None):
    """Set of global keys the expression may denote.  Keys reached only because a parameter's
    *default value* is a module-level object are added to `via_default` (set) as (key, param)."""
    cg = ctx.cg
    out = set()
    if isinstance(expr, (ast.Name, ast.Attribute)):
        for t in cg.resolve(expr, fn):
            if t[0] == 'value' and t[1] in G:
                out.add(t[1])
    if isinstance(expr, ast.Attribute) and expr.attr in cg.attr_tables:
        for k in cg.attr_tables[expr.attr]:
            if k in G:
                out.add(k)
    if isinstance(expr, ast.Name) and fn is not None:
        a = fn.args
        pos = a.posonlyargs + a.args
        pairs = list(zip(pos[len(pos) - len(a.defaults):], a.defaults)) + \
            [(p, d) for p, d in zip(a.kwonlyargs, a.kw_defaults) if d is not None]
        for p, d in pairs:
            if p.arg == expr.id:
                t = cg.res.resolve_expr_modlevel(ctx.repo.mod_of(fn), d)
                if t and t[0] == 'value' and t[1] in G and t[1] not in out:
                    out.add(t[1])
                    if via_default is not None:
                        via_default.add((t[1], p.arg))
    return out


def omitting_callers(ctx, fid, param):
    """Functions with a call site of fid that does not supply `param` (so its default is used)."""
    repo, cg = ctx.repo, ctx.cg
    fn = repo.functions[fid]
    pos = [x.arg for x in fn.args.posonlyargs + fn.args.args]
    is_method = isinstance(repo.parent(fn), ast.ClassDef)
    out = set()
    for caller, sites in cg.sites.items():
        for call, targets in sites:
            if ('func', fid) not in targets:
                continue
            if any(isinstance(a, ast.Starred) for a in call.args) or any(k.arg is None for k in call.keywords):
                continue
            plist = pos[1:] if (is_method and isinstance(call.func, ast.Attribute)) else pos
            supplied = set(plist[:len(call.args)]) | {k.arg for k in call.keywords}
            if param not in supplied:
                out.add(caller)
    return out


def run(ctx):
    repo, cg = ctx.repo, ctx.cg
    ctx.rule('R12.1', 'no function reachable from the diff/merge API or a request handler writes module-level state '
             '(explicitly, or implicitly by looking up an auto-inserting table that has a key-sensitive reader)',
             floor=8, floor_what='module-level mutable objects + table classes examined')
    ctx.rule('R12.2', 're-entrancy flags stored on function objects are reset in a finally on every exit', floor=1)
    ctx.rule('R12.3', 'lru_cache-memoised functions on the path read only their arguments and never-rebound constants', floor=2)
    ctx.rule('R12.6', 'classes with value equality/hash on the diff/merge path compare every field their behaviour reads (cache-key purity)', floor=1)
    ctx.rule('R12.4', 'reset_notebook_differ deletes the explicit keys only; set_notebook_diff_ignores(False) deletes under a membership guard', floor=2)
    ctx.rule('R12.5', 'the configuration API is not reachable from the library API nor from request handlers '
             '(one named, cached, first-request-only exemption)', floor=10)

    G = facts.module_globals(repo, cg)
    lib_roots = facts.DIFF_API + facts.MERGE_API + facts.PATCH_API
    for r in lib_roots:
        repo.func(r)
    handlers = facts.http_handlers(repo, cg)
    roots = lib_roots + handlers
    on_path = cg.reachable(roots)
    for c in CONFIG_API:
        repo.func(c)
    config_api = set(CONFIG_API)

    ctx.extra['globals'] = sorted('%s.%s (%s)' % (k[0], k[1], v['ctor']) for k, v in G.items())
    ctx.extra['roots'] = {'library': lib_roots, 'http_handlers': handlers}
    ctx.extra['functions_on_path'] = len(on_path)

    # ---- table classes: auto-insertion
    auto = {}
    for k, info in sorted(G.items()):
        ai, why = facts.auto_inserting(repo, cg, info)
        auto[k] = ai
    # ---- collect writes / implicit writes / key-sensitive readers, per function
    writes, implicit, readers = [], [], []
    for fid, fn in repo.functions.items():
        globals_decl = set()
        for n in walk_no_nested(fn):
            if isinstance(n, ast.Global):
                globals_decl |= set(n.names)
        m = repo.mod_of(fn)
        for n in walk_no_nested(fn):
            # explicit stores / deletes
            tgts = []
            if isinstance(n, ast.Assign):
                tgts = n.targets
            elif isinstance(n, (ast.AugAssign, ast.AnnAssign)):
                tgts = [n.target]
            elif isinstance(n, ast.Delete):
                tgts = n.targets
            for t in tgts:
                for tt in (t.elts if isinstance(t, (ast.Tuple, ast.List)) else [t]):
                    if isinstance(tt, (ast.Subscript, ast.Attribute)):
                        vd = set()
                        for k in aliases(ctx, G, tt.value, fn, vd):
                            dp = [p for kk, p in vd if kk == k]
                            writes.append((fid, n, k, 'store via default of parameter %s' % dp[0] if dp else 'store'))
                    elif isinstance(tt, ast.Name) and tt.id in globals_decl:
                        writes.append((fid, n, (m.name, tt.id), 'rebind'))
            if isinstance(n, ast.Call) and isinstance(n.func, ast.Attribute) and n.func.attr in facts.MUTATORS:
                vd = set()
                for k in aliases(ctx, G, n.func.value, fn, vd):
                    dp = [p for kk, p in vd if kk == k]
                    writes.append((fid, n, k, ('mutator .%s() via default of parameter %s' % (n.func.attr, dp[0])) if dp
                                   else 'mutator .%s()' % n.func.attr))
            # implicit: subscript load on an auto-inserting table
            if isinstance(n, ast.Subscript) and isinstance(n.ctx, ast.Load):
                for k in aliases(ctx, G, n.value, fn):
                    if auto.get(k):
                        implicit.append((fid, n, k))
            # key-sensitive readers
            if isinstance(n, ast.Compare) and any(isinstance(o, (ast.In, ast.NotIn)) for o in n.ops):
                for c in n.comparators:
                    for k in aliases(ctx, G, c, fn):
                        readers.append((fid, n, k, 'membership test'))
            if isinstance(n, (ast.For, ast.comprehension)):
                for k in aliases(ctx, G, n.iter, fn):
                    readers.append((fid, n if isinstance(n, ast.For) else repo.stmt_of(n) or fn, k, 'iteration'))
            if isinstance(n, ast.Call):
                nm = dotted(n.func) or ''
                if nm in ('len', 'list', 'tuple', 'sorted', 'set') and n.args:
                    for k in aliases(ctx, G, n.args[0], fn):
                        readers.append((fid, n, k, nm + '()'))
                if isinstance(n.func, ast.Attribute) and n.func.attr in ('keys', 'items', 'values'):
                    for k in aliases(ctx, G, n.func.value, fn):
                        readers.append((fid, n, k, '.%s()' % n.func.attr))

    def gname(k):
        return '%s.%s' % k

    def gname(k):
        return '%s.%s' % k

    # ---- R12.1 instances: one per global (writers summarised), findings per offending site
    for k, info in sorted(G.items()):
        ai, why = facts.auto_inserting(repo, cg, info)
        w_on = []
        for f, n, kk, kind in writes:
            if kk != k or f not in on_path or f in config_api:
                continue
            if 'via default of parameter' in kind:
                # the module-level object is only aliased when a caller on the path omits the argument
                prm = kind.rsplit(' ', 1)[1]
                if not (f in roots or (omitting_callers(ctx, f, prm) & on_path)):
                    ctx.note('unarmed: %s writes %s through the default of parameter %s, but every caller on the '
                             'diff/merge/request path passes its own object (external callers relying on the default share state)'
                             % (f, gname(k), prm))
                    continue
            w_on.append((f, n, kind))
        i_on = [(f, n) for f, n, kk in implicit if kk == k and f in on_path]
        r_on = [(f, n, kind) for f, n, kk, kind in readers if kk == k and f in on_path and f not in config_api]
        w_all = [(f, kind) for f, n, kk, kind in writes if kk == k]
        ok = not w_on and not (i_on and r_on)
        ctx.inst('R12.1', gname(k), 'module-level %s; %s' % (info['ctor'], why), ok,
                 'writers: %s; none reachable from the API outside the configuration API; implicit inserting lookups on path: %d; '
                 'key-sensitive readers on path: %d' % (sorted(set(f for f, _ in w_all)) or 'none', len(i_on), len(r_on))
                 if ok else 'written on the diff/merge/request path (see site findings)', info['node'])
        for f, n, kind in w_on:
            p = cg.path(roots, f)
            ctx.inst('R12.1', f, '%s -> %s [%s]' % (repo.norm(repo.stmt_of(n) if not isinstance(n, ast.stmt) else n)[:160], gname(k), kind), False,
                     'explicit write to module-level %s reachable from %s: later calls observe state left by earlier ones'
                     % (gname(k), ' -> '.join(p) if p else '?'), n, extra={'path': p})
        if i_on and r_on:
            for f, n in i_on:
                p = cg.path(roots, f)
                ctx.inst('R12.1', f, '%s inserts into %s on lookup' % (repo.norm(n), gname(k)), False,
                         'lookup stores the default under a key derived from the input (%s), and %s is read key-sensitively at %s: '
                         'the answer depends on which documents were processed before' % (
                             why, gname(k), '; '.join('%s [%s]' % (rf, kind) for rf, _, kind in r_on[:3])), n,
                         extra={'path': p})
        elif i_on:
            for f, n in i_on:
                ctx.inst('R12.1', f, '%s inserts into %s on lookup' % (repo.norm(n), gname(k)), True,
                         'implicit insert, but no key-sensitive reader of %s on the path (inserted value equals what a later miss computes)' % gname(k), n)

    # ---- R12.1 (cont.) `global X` rebinding of module names that are not containers (lazily built singletons, caches, counters)
    for f, n, k, kind in writes:
        if kind != 'rebind' or k in G:
            continue
        on = f in on_path and f not in config_api
        p = cg.path(roots, f) if on else None
        ctx.inst('R12.1', f, '%s -> %s [global rebinding]' % (repo.norm(n)[:140], gname(k)), not on,
                 'module-level name rebound only outside the diff/merge/request path' if not on else
                 'module-level %s is (re)bound on the path %s: what is stored by the first call (e.g. a snapshot of the configuration then in force) '
                 'is what every later call in the process sees' % (gname(k), ' -> '.join(p) if p else '?'), n, extra={'path': p} if p else None)

    # ---- R12.2 function-attribute flags
    flags = {}
    for m in repo.modules.values():
        for st in m.tree.body:
            if isinstance(st, ast.Assign) and len(st.targets) == 1 and isinstance(st.targets[0], ast.Attribute):
                t = cg.res.resolve_expr_modlevel(m, st.targets[0].value)
                if t and t[0] == 'func':
                    flags[(t[1], st.targets[0].attr)] = st.value
    for fid, fn in repo.functions.items():
        for n in walk_no_nested(fn):
            if isinstance(n, ast.Assign) and len(n.targets) == 1 and isinstance(n.targets[0], ast.Attribute):
                tg = n.targets[0]
                ts = [t for t in cg.resolve(tg.value, fn) if t[0] == 'func']
                if not ts:
                    continue
                key = (ts[0][1], tg.attr)
                if repo.func_of(n) is not fn:
                    continue
                # nested helper attributes (c.called in pretty_print_cell) live on a per-call closure: skip
                target_fn = repo.functions[ts[0][1]]
                if repo.func_of(target_fn) is not None:
                    ctx.inst('R12.2', fid, repo.norm(n), True, 'attribute of a per-call closure, not process state', n, nontrivial=False)
                    continue
                init = flags.get(key)
                initv = ast.unparse(init) if init is not None else None
                if init is not None and ast.unparse(n.value) == initv:
                    # a reset store; must be in a finally (checked from the setter side)
                    continue
                # a set: next statement in the block must be try/finally resetting to init
                blk = _block_of(repo, n)
                idx = blk.index(n)
                nxt = blk[idx + 1] if idx + 1 < len(blk) else None
                ok = isinstance(nxt, ast.Try) and any(
                    isinstance(s, ast.Assign) and len(s.targets) == 1 and
                    ast.unparse(s.targets[0]) == ast.unparse(tg) and initv is not None and ast.unparse(s.value) == initv
                    for s in nxt.finalbody)
                ctx.inst('R12.2', fid, repo.norm(n), ok,
                         'flag set immediately before a try whose finally restores the initial value %s' % initv if ok else
                         'flag %s.%s is set but not restored in a finally directly after: an exception leaves it set for every later call' % key, n)

    # ---- R12.3 memoised functions
    rebound = set()        # (mod, name) rebound via `global` or attribute store on module
    for fid, fn in repo.functions.items():
        decl = set()
        for n in walk_no_nested(fn):
            if isinstance(n, ast.Global):
                decl |= set(n.names)
        for n in walk_no_nested(fn):
            if isinstance(n, ast.Name) and isinstance(n.ctx, ast.Store) and n.id in decl:
                rebound.add((repo.mod_of(fn).name, n.id))
            if isinstance(n, (ast.Assign, ast.AugAssign)):
                for t in (n.targets if isinstance(n, ast.Assign) else [n.target]):
                    if isinstance(t, ast.Attribute):
                        for b in cg.resolve(t.value, fn):
                            if b[0] == 'module':
                                rebound.add((b[1], t.attr))
    cached = []
    for fid, fn in repo.functions.items():
        for d in fn.decorator_list:
            dn = d.func if isinstance(d, ast.Call) else d
            if any(t == ('ext', 'functools.lru_cache') or t == ('ext', 'functools.cache')
                   for t in cg.resolve(dn, None) + [cg.res.resolve_expr_modlevel(repo.mod_of(fn), dn) or ('x', '')]):
                cached.append(fid)
    for fid in sorted(cached):
        fn = repo.functions[fid]
        bad = []
        for g in sorted(cg.reachable([fid])):
            gf = repo.functions[g]
            for n in walk_no_nested(gf):
                if isinstance(n, ast.Name) and isinstance(n.ctx, ast.Load):
                    for t in cg.resolve(n, gf):
                        if t[0] == 'value':
                            if t[1] in G:
                                bad.append((g, n, 'reads module-level mutable %s.%s' % t[1]))
                            elif t[1] in rebound:
                                bad.append((g, n, 'reads %s.%s, which is rebound at run time' % t[1]))
        if fn.args.args and fn.args.args[0].arg in ('self', 'cls'):
            bad.append((fid, fn, 'memoised method keeps instances alive and keys on identity'))
        ok = not bad
        ctx.inst('R12.3', fid, '@lru_cache; reads via %d reachable function(s)' % len(cg.reachable([fid])), ok,
                 'result depends only on the key (arguments); no mutable or rebindable module state is read' if ok else
                 '; '.join('%s: %s' % (g, w) for g, _, w in bad[:3]) + ' -- a cached verdict can be stale', bad[0][1] if bad else fn)

    # ---- R12.6 objects that serve as memoisation keys compare all the state their behaviour depends on
    n_vo = 0
    for cid, c in sorted(repo.classes.items()):
        if not cid.startswith(('nbdime.diffing.', 'nbdime.merging.', 'nbdime.utils', 'nbdime.diff_')):
            continue
        methods = {st.name: st for st in c.body if isinstance(st, FuncTypes)}
        if '__eq__' not in methods and '__hash__' not in methods:
            continue
        n_vo += 1

        def attrs(fnode, names=('self',)):
            return {n.attr for n in ast.walk(fnode) if isinstance(n, ast.Attribute) and isinstance(n.value, ast.Name) and n.value.id in names}
        state = set()
        if '__init__' in methods:
            state |= {n.attr for n in ast.walk(methods['__init__']) if isinstance(n, ast.Attribute) and isinstance(n.ctx, ast.Store)
                      and isinstance(n.value, ast.Name) and n.value.id == 'self'}
        for name, mnode in methods.items():
            if name not in ('__init__', '__eq__', '__ne__', '__hash__', '__repr__', '__str__'):
                state |= attrs(mnode)
        state = {a for a in state if not a.startswith('__')}
        in_eq = attrs(methods['__eq__'], ('self', 'other')) if '__eq__' in methods else set()
        in_hash = attrs(methods['__hash__']) if '__hash__' in methods else None
        missing_eq = sorted(state - in_eq) if '__eq__' in methods else []
        missing_hash = sorted(state - in_hash) if in_hash is not None else []
        ok = not missing_eq and not (missing_hash and '__eq__' not in methods)
        ctx.inst('R12.6', cid, 'state %s; __eq__ compares %s; __hash__ uses %s' % (sorted(state), sorted(in_eq), sorted(in_hash) if in_hash is not None else None), ok,
                 'two instances that behave differently never compare equal (safe as cache keys)' if ok else
                 'instances differing in %s compare equal: used as an lru_cache/dict key, the first computed answer is served for the other one -- the result depends on call history' % missing_eq,
                 methods.get('__eq__', c))
    ctx.inst('R12.6', 'nbdime.diffing/merging', '%d class(es) define __eq__/__hash__' % n_vo, True, 'value-compared classes examined', None, nontrivial=False)

    # ---- R12.4 reset helper
    rn = repo.func('nbdime.diffing.notebooks:reset_notebook_differ')
    dels = [n for n in walk_no_nested(rn) if isinstance(n, ast.Delete)]
    loops = [n for n in walk_no_nested(rn) if isinstance(n, ast.For)]
    touches_defaults = [n for n in ast.walk(rn) if isinstance(n, ast.Attribute) and n.attr == 'default_values']
    other_writes = [w for w in writes if w[0] == 'nbdime.diffing.notebooks:reset_notebook_differ' and not isinstance(w[1], ast.Delete)]
    ok = bool(dels and loops) and not touches_defaults and not other_writes
    if ok:
        it = loops[0].iter
        ok = isinstance(it, ast.Call) and (dotted(it.func) in ('tuple', 'list', 'sorted')) and \
            any(isinstance(c, ast.Call) and isinstance(c.func, ast.Attribute) and c.func.attr == 'keys'
                for c in ast.walk(it)) or (isinstance(it, ast.Call) and dotted(it.func) in ('tuple', 'list'))
    ctx.inst('R12.4', 'nbdime.diffing.notebooks:reset_notebook_differ',
             '; '.join(repo.norm(s) for s in loops[:1] + dels[:1]) or '<no loop/del>', ok,
             'iterates a snapshot of the explicit keys and deletes each; defaults untouched' if ok else
             'reset does not delete exactly the explicitly set keys (or touches default_values)', rn)
    sn = repo.func('nbdime.diffing.notebooks:set_notebook_diff_ignores')
    g = CFG(sn)
    dels = [n for n in walk_no_nested(sn) if isinstance(n, ast.Delete)]
    if not dels:
        raise AnalysisError('set_notebook_diff_ignores has no del arm (False => reset)')
    for d in dels:
        guards = cond_guards(g, d)
        ok = any(pol and isinstance(t, ast.Compare) and isinstance(t.ops[0], ast.In) for t, pol in guards) and \
            any(pol and isinstance(t, ast.Compare) and isinstance(t.ops[0], ast.Is) and
                isinstance(t.comparators[0], ast.Constant) and t.comparators[0].value is False for t, pol in guards)
        ctx.inst('R12.4', 'nbdime.diffing.notebooks:set_notebook_diff_ignores', repo.norm(d), ok,
                 'deletes only under `subkeys is False` and a membership guard' if ok else
                 'deletion of a table key is not guarded by the False-arm and a membership test', d)

    # ---- R12.5 configuration API reachability
    writers = set(f for f, n, k, kind in writes if f in config_api) | {c for c in CONFIG_API}
    table_writers = {'nbdime.diffing.notebooks:set_notebook_diff_ignores', 'nbdime.diffing.notebooks:reset_notebook_differ'}
    exempt_root = 'nbdime.webapp.nbdimeserver:ApiMergeHandler.post'
    for r in roots:
        reach = cg.reachable([r])
        hit = sorted(reach & table_writers)
        if not hit:
            ctx.inst('R12.5', r, 'cannot reach %s' % sorted(x.split(':')[1] for x in table_writers), True,
                     'no call path from this entry point to a writer of the differ table', repo.functions[r])
            continue
        if r != exempt_root:
            p = cg.path([r], hit[0])
            ctx.inst('R12.5', r, 'reaches %s' % hit[0], False,
                     'entry point re-configures the process-wide differ table on every call: %s' % ' -> '.join(p),
                     repo.functions[r], extra={'path': p})
            continue
        # named exemption: every call site in the handler that can reach a writer must be under the
        # `merge_args is None` cache test and its result cached in self.settings
        fn = repo.functions[r]
        gcf = CFG(fn)
        defs = local_defs(fn)
        bad = []
        n_sites = 0
        for call, targets in cg.sites.get(r, []):
            tf = [t[1] for t in targets if t[0] == 'func']
            inner = set()
            for t in tf:
                inner |= cg.reachable([t])
            # receiver call chains: build_merge_parser().parse_args(...)
            if not (inner & table_writers):
                continue
            n_sites += 1
            st = repo.stmt_of(call)
            guards = cond_guards(gcf, st)
            g_ok = False
            for t, pol in guards:
                if pol and isinstance(t, ast.Compare) and isinstance(t.ops[0], ast.Is) and \
                        isinstance(t.comparators[0], ast.Constant) and t.comparators[0].value is None:
                    src = depends_on(fn, t.left, lambda n: isinstance(n, ast.Attribute) and n.attr == 'settings', defs)
                    if src is not None:
                        g_ok = True
                        # cached back in the same guarded region
                        blk = _block_of(repo, st)
                        cached_back = any(isinstance(s, ast.Assign) and isinstance(s.targets[0], ast.Subscript) and
                                          isinstance(s.targets[0].value, ast.Attribute) and s.targets[0].value.attr == 'settings'
                                          for s in blk)
                        g_ok = cached_back
            if not g_ok:
                bad.append(call)
        ok = not bad and n_sites > 0
        ctx.inst('R12.5', r, 'reaches the configuration API through %d call site(s) under `settings[...] is None` cache' % n_sites, ok,
                 'named exemption: first request only re-applies the entry point\'s own Ignore configuration, result cached in settings' if ok else
                 'configuration API reachable on every request (cache test or cache store missing)', bad[0] if bad else fn)

    # notes (unarmed): default-argument alias writes outside the C12 roots
    for f, n, k, kind in writes:
        if k in G and f not in on_path and f not in config_api and G[k]['kind'] == 'instance':
            ctx.note('unarmed: %s writes %s (%s) -- outside the diff/merge/request roots: %s' % (
                f, gname(k), kind, repo.norm(repo.stmt_of(n))[:80]))


def _block_of(repo, st):
    p = repo.parent(st)
    for field in ('body', 'orelse', 'finalbody'):
        b = getattr(p, field, None)
        if isinstance(b, list) and st in b:
            return b
    for h in getattr(p, 'handlers', []):
        if st in h.body:
            return h.body
    return [st]


from .extra import with_extra  # noqa: E402
run = with_extra('C12', run)
