"""Loader, symbol tables, anchors, construct normalisation.

Everything is rebuilt from ``root`` on every run.  A missing anchor raises
AnalysisError (exit 2, "analysis broken"), never a silent pass and never a
VIOLATION.
"""
import ast
import json
import os
import re
import importlib.util


class AnalysisError(Exception):
    """The analyser cannot do its job (missing anchor, parse failure, floor not met)."""


class Module:
    def __init__(self, name, path, relpath, src, tree):
        self.name = name            # dotted name, e.g. nbdime.merging.generic
        self.path = path
        self.relpath = relpath
        self.src = src
        self.tree = tree
        self.is_pkg = path.endswith('__init__.py')
        self.imports = {}           # local name -> dotted target (module or module.attr)
        self.defs = {}              # top-level function name -> FunctionDef
        self.classes = {}           # top-level class name -> ClassDef
        self.assigns = {}           # module-level name -> list of value nodes

    def __repr__(self):
        return '<Module %s>' % self.name


FuncTypes = (ast.FunctionDef, ast.AsyncFunctionDef)


class Repo:
    """All non-test python modules of the nbdime package under ``root``."""

    def __init__(self, root='/repo', package='nbdime'):
        self.root = os.path.abspath(root)
        self.package = package
        self.modules = {}
        self._parent = {}
        self._func_of = {}
        self._mod_of_func = {}
        self._qual = {}
        self.functions = {}         # fid "mod:qual" -> FunctionDef
        self.classes = {}           # cid "mod:Class" -> ClassDef
        self._load()

    # ------------------------------------------------------------------ loading
    def _load(self):
        pkgdir = os.path.join(self.root, self.package)
        if not os.path.isdir(pkgdir):
            raise AnalysisError('package directory %s not found' % pkgdir)
        for dirpath, dirnames, filenames in os.walk(pkgdir):
            dirnames[:] = sorted(d for d in dirnames
                                 if d not in ('tests', '__pycache__', 'node_modules',
                                              'static', 'templates', 'labextension',
                                              'notebook_ext', 'testnotebooks'))
            for fn in sorted(filenames):
                if not fn.endswith('.py'):
                    continue
                path = os.path.join(dirpath, fn)
                rel = os.path.relpath(path, self.root)
                parts = rel[:-3].split(os.sep)
                if parts[-1] == '__init__':
                    parts = parts[:-1]
                name = '.'.join(parts)
                with open(path, encoding='utf8') as f:
                    src = f.read()
                try:
                    tree = ast.parse(src, filename=path)
                except SyntaxError as e:
                    raise AnalysisError('cannot parse %s: %s' % (rel, e))
                m = Module(name, path, rel, src, tree)
                self.modules[name] = m
        if len(self.modules) < 30:
            raise AnalysisError('only %d modules found under %s' % (len(self.modules), pkgdir))
        # normalisation: helpers that did not exist in the reference tree are substituted back into their callers (inline.py)
        self.inlined = []
        self.renamed = []
        if os.environ.get('NBSA_NO_INLINE') != '1':
            from .inline import inline_new_functions, load_baseline, rename_back, load_features
            try:
                _bl = load_baseline()
                self.renamed = rename_back(self.modules, _bl, load_features())
                self.inlined = inline_new_functions(self.modules, _bl)
            except RecursionError:
                raise AnalysisError('helper inlining did not terminate')
        for m in self.modules.values():
            self._index(m)

    def _index(self, m):
        # parent links + enclosing function + qualified names
        def walk(node, parent, func, qual):
            self._parent[node] = parent
            self._func_of[node] = func
            if isinstance(node, FuncTypes + (ast.ClassDef,)):
                q = (qual + '.' if qual else '') + node.name
                self._qual[node] = q
                if isinstance(node, FuncTypes):
                    fid = '%s:%s' % (m.name, q)
                    self.functions[fid] = node
                    self._mod_of_func[node] = m
                    for ch in ast.iter_child_nodes(node):
                        walk(ch, node, node, q)
                else:
                    self.classes['%s:%s' % (m.name, q)] = node
                    self._mod_of_func[node] = m
                    for ch in ast.iter_child_nodes(node):
                        walk(ch, node, func, q)
                return
            for ch in ast.iter_child_nodes(node):
                walk(ch, node, func, qual)
        walk(m.tree, None, None, '')
        # symbol table (module level, including statements nested in try/if at top level)
        def top(stmts):
            for st in stmts:
                if isinstance(st, FuncTypes):
                    m.defs[st.name] = st
                elif isinstance(st, ast.ClassDef):
                    m.classes[st.name] = st
                elif isinstance(st, ast.Import):
                    for a in st.names:
                        if a.asname:
                            m.imports[a.asname] = a.name
                        else:
                            m.imports[a.name.split('.')[0]] = a.name.split('.')[0]
                elif isinstance(st, ast.ImportFrom):
                    base = self.resolve_from(m, st)
                    for a in st.names:
                        m.imports[a.asname or a.name] = (base + '.' + a.name) if base else a.name
                elif isinstance(st, ast.Assign):
                    for t in st.targets:
                        if isinstance(t, ast.Name):
                            m.assigns.setdefault(t.id, []).append(st.value)
                elif isinstance(st, (ast.If, ast.Try)):
                    top(st.body)
                    top(getattr(st, 'orelse', []))
                    for h in getattr(st, 'handlers', []):
                        top(h.body)
                    top(getattr(st, 'finalbody', []))
        top(m.tree.body)

    def resolve_from(self, m, st):
        """Dotted base module of an ImportFrom statement inside module m."""
        if st.level == 0:
            return st.module or ''
        parts = m.name.split('.')
        if not m.is_pkg:
            parts = parts[:-1]
        if st.level > 1:
            parts = parts[:len(parts) - (st.level - 1)]
        if st.module:
            parts = parts + st.module.split('.')
        return '.'.join(parts)

    # ------------------------------------------------------------------ access
    def mod(self, name):
        try:
            return self.modules[name]
        except KeyError:
            raise AnalysisError('anchor module %s not found' % name)

    def func(self, fid):
        try:
            return self.functions[fid]
        except KeyError:
            pass
        # a function that was moved to a sibling module and is re-exported by `from .x import name` keeps its anchor
        mod, _, name = fid.partition(':')
        m = self.modules.get(mod)
        for _hop in range(3):
            if m is None or '.' in name:
                break
            tgt = m.imports.get(name)
            if not tgt or '.' not in tgt:
                break
            mod2, name2 = tgt.rsplit('.', 1)
            if mod2 + ':' + name2 in self.functions:
                return self.functions[mod2 + ':' + name2]
            m, name = self.modules.get(mod2), name2
        raise AnalysisError('anchor function %s not found' % fid)

    def has_func(self, fid):
        return fid in self.functions

    def cls(self, cid):
        try:
            return self.classes[cid]
        except KeyError:
            raise AnalysisError('anchor class %s not found' % cid)

    def parent(self, node):
        return self._parent.get(node)

    def func_of(self, node):
        return self._func_of.get(node)

    def mod_of(self, node):
        """Module containing node (node must be, or be inside, a def/class; else search)."""
        f = node if node in self._mod_of_func else self._func_of.get(node)
        while f is not None and f not in self._mod_of_func:
            f = self._func_of.get(f)
        if f is not None:
            return self._mod_of_func[f]
        # module-level statement: climb to Module node
        n = node
        while self._parent.get(n) is not None:
            n = self._parent[n]
        for m in self.modules.values():
            if m.tree is n:
                return m
        raise AnalysisError('node without module')

    def fid_of(self, funcnode):
        return '%s:%s' % (self._mod_of_func[funcnode].name, self._qual[funcnode])

    def where(self, node):
        """'module:qualname' of the innermost def enclosing node ('module:<module>' otherwise)."""
        f = node if isinstance(node, FuncTypes) else self._func_of.get(node)
        if f is None:
            return '%s:<module>' % self.mod_of(node).name
        return self.fid_of(f)

    def loc(self, node):
        m = self.mod_of(node)
        return '%s:%d' % (m.relpath, getattr(node, 'lineno', 0))

    def module_assign(self, modname, name):
        m = self.mod(modname)
        for _hop in range(3):
            if name in m.assigns:
                return m.assigns[name][-1]
            # moved to a sibling module and imported back: follow `from .x import name`
            tgt = m.imports.get(name)
            if not tgt or '.' not in tgt:
                break
            mod2, name2 = tgt.rsplit('.', 1)
            if mod2 not in self.modules:
                break
            m, name = self.modules[mod2], name2
        raise AnalysisError('anchor %s.%s (module-level assignment) not found' % (modname, name))

    def enclosing(self, node, types):
        n = self._parent.get(node)
        while n is not None and not isinstance(n, types):
            n = self._parent.get(n)
        return n

    def ancestors(self, node):
        n = self._parent.get(node)
        while n is not None:
            yield n
            n = self._parent.get(n)

    def stmt_of(self, node):
        n = node
        while n is not None and not isinstance(n, ast.stmt):
            n = self._parent.get(n)
        return n

    # ------------------------------------------------------------------ text
    def text(self, relpath):
        p = os.path.join(self.root, relpath)
        if not os.path.exists(p):
            raise AnalysisError('anchor file %s not found' % relpath)
        with open(p, encoding='utf8') as f:
            return f.read()

    def json(self, relpath):
        try:
            return json.loads(self.text(relpath))
        except ValueError as e:
            raise AnalysisError('cannot parse %s: %s' % (relpath, e))

    # ------------------------------------------------------------------ normalisation
    def local_names(self, func):
        names = set()
        if func is None:
            return names
        a = func.args
        for arg in a.posonlyargs + a.args + a.kwonlyargs:
            names.add(arg.arg)
        if a.vararg:
            names.add(a.vararg.arg)
        if a.kwarg:
            names.add(a.kwarg.arg)
        for n in ast.walk(func):
            if isinstance(n, ast.Name) and isinstance(n.ctx, (ast.Store, ast.Del)):
                names.add(n.id)
        return names

    def norm(self, node, func=None):
        """Normalised source of a construct: unparse, locals alpha-renamed in order of appearance."""
        if func is None:
            func = node if isinstance(node, FuncTypes) else self._func_of.get(node)
        loc = self.local_names(func)
        text = ast.unparse(node)
        if not loc:
            return ' '.join(text.split())
        order = []
        for n in ast.walk(node):
            pass
        # rename by token scan on identifiers (order of first appearance in the text)
        mapping = {}

        def sub(mo):
            w = mo.group(0)
            if mo.group(1) is not None:
                return w            # string literal: left alone
            if mo.end() < len(text) and text[mo.end()] in '\'"':
                return w            # string prefix (f'..', b'..')
            # attribute names (preceded by '.') are left alone
            i = mo.start()
            if i > 0 and text[i - 1] == '.':
                return w
            j = mo.end()
            while j < len(text) and text[j] == ' ':
                j += 1
            if j < len(text) and text[j] == '=' and text[j + 1:j + 2] != '=' and i > 0 and text[i - 1] in '(, ':
                k = i - 1
                while k >= 0 and text[k] == ' ':
                    k -= 1
                if k >= 0 and text[k] in '(,':
                    return w        # keyword argument name
            if w in loc:
                if w not in mapping:
                    mapping[w] = '_v%d' % len(mapping)
                return mapping[w]
            return w
        # protect string literals: operate on unparse of a constant-masked copy is overkill;
        # identifiers inside string literals are rare in the constructs we key on.
        out = re.sub(r'''('(?:[^'\\]|\\.)*'|"(?:[^"\\]|\\.)*")|[A-Za-z_][A-Za-z_0-9]*''', sub, text)
        return ' '.join(out.split())


def dotted(node):
    """a.b.c -> 'a.b.c' for Name/Attribute chains, else None."""
    parts = []
    while isinstance(node, ast.Attribute):
        parts.append(node.attr)
        node = node.value
    if isinstance(node, ast.Name):
        parts.append(node.id)
        return '.'.join(reversed(parts))
    return None


def const_str(node):
    if isinstance(node, ast.Constant) and isinstance(node.value, str):
        return node.value
    return None


def walk_no_nested(node):
    """ast.walk that does not descend into nested defs/lambdas/classes (but yields them)."""
    stack = [node]
    first = True
    while stack:
        n = stack.pop()
        yield n
        if not first and isinstance(n, FuncTypes + (ast.Lambda, ast.ClassDef)):
            continue
        first = False
        stack.extend(reversed(list(ast.iter_child_nodes(n))))


def find_pkg_file(pkg, *rel):
    """Locate a data/source file of an installed third-party package WITHOUT importing it."""
    spec = importlib.util.find_spec(pkg)
    if spec is None or not spec.submodule_search_locations:
        raise AnalysisError('package %s not installed in this interpreter' % pkg)
    p = os.path.join(list(spec.submodule_search_locations)[0], *rel)
    if not os.path.exists(p):
        raise AnalysisError('file %s not found in package %s' % (os.path.join(*rel), pkg))
    return p
