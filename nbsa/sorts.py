"""Sorts of diff entries by key: tie-break facts shared by C09 (R09.8) and C15 (R15.6).

patch_list relies on "addrange before patch/removerange at the same key".  The builders insert with an explicit tie-break
(SequenceDiffBuilder.append); the two places that re-sort entries afterwards (`combine_patches`, used by apply_decisions,
and `flatten_list_of_string_diff`) sort by `.key` alone, which is correct only because Python's sort is stable and the
list they sort was built in one pass over the already ordered input.
"""
import ast

from .core import walk_no_nested, dotted
from .util import local_defs

SITES = ['nbdime.merging.strategies:combine_patches', 'nbdime.diff_utils:flatten_list_of_string_diff']


def key_function_kind(keyfn):
    """'key-only' | 'tie-broken' | 'other' for the key= argument of a sort."""
    if isinstance(keyfn, ast.Lambda):
        b = keyfn.body
        arg = keyfn.args.args[0].arg if keyfn.args.args else None
        if isinstance(b, ast.Attribute) and b.attr == 'key' and isinstance(b.value, ast.Name) and b.value.id == arg:
            return 'key-only'
        if isinstance(b, ast.Tuple) and b.elts and isinstance(b.elts[0], ast.Attribute) and b.elts[0].attr == 'key':
            return 'tie-broken'
        return 'other'
    if isinstance(keyfn, ast.Call) and (dotted(keyfn.func) or '').endswith('attrgetter') and len(keyfn.args) == 1 and \
            isinstance(keyfn.args[0], ast.Constant) and keyfn.args[0].value == 'key':
        return 'key-only'
    return 'other'


def key_sort_sites(repo):
    """[(fid, fn, sort call node, sorted list name, key function node)] for sorts with a key= in the two re-sorting functions."""
    out = []
    for fid in SITES:
        fn = repo.func(fid)
        for n in walk_no_nested(fn):
            if not isinstance(n, ast.Call):
                continue
            kw = {k.arg: k.value for k in n.keywords}
            if 'key' not in kw:
                continue
            if isinstance(n.func, ast.Name) and n.func.id == 'sorted' and n.args and isinstance(n.args[0], ast.Name):
                out.append((fid, fn, n, n.args[0].id, kw['key']))
            elif isinstance(n.func, ast.Attribute) and n.func.attr == 'sort' and isinstance(n.func.value, ast.Name):
                out.append((fid, fn, n, n.func.value.id, kw['key']))
    return out


def single_pass_construction(fn, name, _depth=0):
    """Is list `name` built by appends (or replacement of its last element) inside ONE for-loop, starting from []?
    A list built that way from another single-pass list keeps the order too.  Returns (ok, reason)."""
    defs = local_defs(fn).get(name, [])
    if not defs:
        return False, '%s is not built in this function' % name
    for v, k, st in defs:
        if k == 'assign':
            if isinstance(v, ast.List) and not v.elts:
                continue
            return False, '%s is assembled from `%s`, not appended to in input order' % (name, ast.unparse(v)[:70])
        if k == 'mutate':
            if not (isinstance(st, ast.Call) and isinstance(st.func, ast.Attribute) and st.func.attr == 'append'):
                return False, '%s receives whole groups of entries (`%s`): entries with equal keys no longer keep their input order' % (name, ast.unparse(st)[:70])
        elif k == 'aug':
            return False, '%s is extended with `%s`' % (name, ast.unparse(v)[:70])
    return True, 'appended to entry by entry'
