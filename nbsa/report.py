"""Analysis context, instance/finding bookkeeping, evidence + exit-code protocol."""
import json
import os
import time

from .core import Repo, AnalysisError

VERIF = os.path.dirname(os.path.dirname(os.path.abspath(__file__)))
EVIDENCE_DIR = os.path.join(VERIF, 'evidence')
KNOWN = os.path.join(VERIF, 'known_findings.json')


class Ctx:
    def __init__(self, root, prop, tier):
        self.root = root
        self.prop = prop
        self.tier = tier
        self.repo = Repo(root)
        from . import util as _util
        _util.CURRENT_REPO = self.repo
        self._cg = None
        self.instances = []     # dicts
        self.findings = []      # dicts (subset of instances with ok False)
        self.notes = []
        self.floors = {}        # rule -> (min, what)
        self.rules = {}         # rule -> description (clause decided)
        self.extra = {}

    @property
    def cg(self):
        if self._cg is None:
            from .calls import CallGraph
            self._cg = CallGraph(self.repo)
        return self._cg

    def rule(self, rid, text, floor=0, floor_what=''):
        self.rules[rid] = text
        if floor:
            self.floors[rid] = (floor, floor_what)

    def inst(self, rule, where, construct, ok, why, node=None, nontrivial=True, extra=None):
        d = {'rule': rule, 'where': where, 'construct': construct,
             'verdict': 'ok' if ok else 'FINDING', 'why': why}
        if node is not None:
            try:
                d['at'] = self.repo.loc(node)
            except Exception:
                pass
        if extra:
            d.update(extra)
        d['_nontrivial'] = nontrivial
        self.instances.append(d)
        if not ok:
            self.findings.append(d)
        return ok

    def note(self, text):
        self.notes.append(text)

    def check_floors(self):
        counts = {}
        for i in self.instances:
            counts[i['rule']] = counts.get(i['rule'], 0) + 1
        failing = {f['rule'] for f in self.findings}
        for rid, (n, what) in self.floors.items():
            if rid in failing:
                continue        # the rule already reports a construct; a finding can cut its later instances short
            if counts.get(rid, 0) < n:
                raise AnalysisError(
                    'rule %s matched %d instance(s), fewer than the %d confirmed by hand (%s); '
                    'an anchor moved or vanished' % (rid, counts.get(rid, 0), n, what))
        return counts


def load_known(prop):
    if not os.path.exists(KNOWN):
        return []
    with open(KNOWN, encoding='utf8') as f:
        data = json.load(f)
    return [e for e in data.get('findings', []) if e.get('property') == prop]


def load_documented(prop):
    if not os.path.exists(KNOWN):
        return []
    with open(KNOWN, encoding='utf8') as f:
        data = json.load(f)
    return [e for e in data.get('documented', []) if e.get('property') == prop]


def match_known(finding, known):
    for k in known:
        if k['rule'] == finding['rule'] and k['where'] == finding['where'] and \
                k['construct'] == finding['construct']:
            return k
    # R13.2 (alias escapes that are by design: results share values with the diff / the inputs).  The root cause is per function and per
    # originating input, not per statement: a site whose statement was rewritten (value collected in a local first, loop turned into
    # extend) is the same finding.  A site in ANOTHER function, or fed from another input, is still new.
    if finding['rule'] == 'R13.2' and '[from ' in finding['construct']:
        origin = finding['construct'][finding['construct'].rindex('[from '):]
        for k in known:
            if k['rule'] == 'R13.2' and k['where'] == finding['where'] and k['construct'].endswith(origin):
                return k
    return None


def finish(ctx, t0, assumptions, level='other', selftest=None):
    """Write evidence, print protocol lines, return exit code."""
    deferred = list(getattr(ctx, 'deferred', []))
    try:
        counts = ctx.check_floors()
    except AnalysisError as e:
        if not deferred:
            raise
        deferred.append(('floors', str(e)))
        counts = {}
        for i in ctx.instances:
            counts[i['rule']] = counts.get(i['rule'], 0) + 1
    known = load_known(ctx.prop)
    if deferred and not any(not match_known(f, known) for f in ctx.findings):
        # nothing proven wrong, but part of the analysis could not be done: no verdict
        raise AnalysisError('; '.join('%s: %s' % d for d in deferred))
    for d in deferred:
        ctx.notes.append('NOT EVALUATED (%s): %s' % d)
    global EVIDENCE_DIR
    if os.environ.get('NBSA_EVIDENCE_DIR'):
        EVIDENCE_DIR = os.environ['NBSA_EVIDENCE_DIR']
    elif os.path.realpath(ctx.root) != '/repo':
        # analysing a scratch copy (self-test, seeded change): never touch the committed evidence
        import tempfile
        EVIDENCE_DIR = os.path.join(tempfile.gettempdir(), 'nbsa-evidence-%d' % os.getuid())
    new, listed = [], []
    for f in ctx.findings:
        k = match_known(f, known)
        (listed if k else new).append((f, k))
    os.makedirs(os.path.join(EVIDENCE_DIR, 'replay'), exist_ok=True)
    # stale replay files of this property are removed
    rdir = os.path.join(EVIDENCE_DIR, 'replay')
    for fn in os.listdir(rdir):
        if fn.startswith(ctx.prop + '-'):
            os.remove(os.path.join(rdir, fn))

    print('== %s (%s tier) on %s' % (ctx.prop, ctx.tier, ctx.root))
    print('analysed: %d modules, %d functions' % (len(ctx.repo.modules), len(ctx.repo.functions)))
    for rid in sorted(ctx.rules):
        n = counts.get(rid, 0)
        bad = sum(1 for f in ctx.findings if f['rule'] == rid)
        print('  %-7s %3d instance(s), %d finding(s)  -- %s' % (rid, n, bad, ctx.rules[rid]))
    for n in ctx.notes:
        print('  note: ' + n)
    for f, k in listed:
        print('KNOWN-FINDING: property=%s %s %s :: %s -- %s' % (
            ctx.prop, f['rule'], f['where'], f['construct'], k.get('what', f['why'])))
    # genuine defects confirmed by experiment against the real code that no rule of this property decides (they are properties of
    # algorithms / heuristics, not of the shape of the code): listed so that they are known, never matched against anything
    for e in load_documented(ctx.prop):
        print('KNOWN-FINDING: property=%s [found by experiment; not decided by the static rules] %s -- input: %s; reproducer %s; not repaired: %s' % (
            ctx.prop, e['what'], e['input'], e['reproducer'], e['why_not_repaired']))
    rc = 0
    for i, (f, _) in enumerate(new):
        path = os.path.join(rdir, '%s-%d.json' % (ctx.prop, i))
        rep = {k: v for k, v in f.items() if not k.startswith('_')}
        rep['property'] = ctx.prop
        rep['root'] = ctx.root
        with open(path, 'w', encoding='utf8') as fh:
            json.dump(rep, fh, indent=1)
        print('  finding: %s %s [%s] %s -- %s' % (f['rule'], f['where'], f.get('at', '?'),
                                                  f['construct'], f['why']))
        print('VIOLATION property=%s replay=%s' % (ctx.prop, path))
        rc = 1

    def clean(d):
        return {k: v for k, v in d.items() if not k.startswith('_')}

    distinct = len({(i['rule'], i['where'], i['construct']) for i in ctx.instances
                    if i['_nontrivial']})
    samples = [clean(f) for f in ctx.findings]
    seen_rules = set()
    for i in ctx.instances:
        if i['verdict'] == 'ok' and (i['rule'] not in seen_rules or len(samples) < 14):
            if sum(1 for s in samples if s['rule'] == i['rule']) < 3:
                samples.append(clean(i))
                seen_rules.add(i['rule'])
    cov = {
        'explanation': 'Static analysis of the source under %s (no nbdime code is imported or run). '
                       'Rules applied and the clause each decides: %s' % (
                           ctx.root, ' | '.join('%s: %s' % (r, t) for r, t in sorted(ctx.rules.items()))),
        'obligations': len(ctx.instances),
        'discharged': len(ctx.instances) - len(ctx.findings),
        'evaluations': max(1, len(ctx.instances) + (selftest or {}).get('variants', 0)),
        'distinct_nontrivial': distinct,
        'rule': 'one instance per (rule, function, normalised construct) examined on this run; '
                'non-trivial = a guard/dominance/dataflow/table query was evaluated for it',
        'samples': samples[:40],
        'exhaustive': True,
        'modules': len(ctx.repo.modules),
        'functions': len(ctx.repo.functions),
        'instances_per_rule': counts,
        'rule_floors': {r: n for r, (n, _) in ctx.floors.items()},
        'known_findings_present': [clean(f) for f, _ in listed],
        'documented_findings_not_decided_statically': load_documented(ctx.prop),
        'new_findings': [clean(f) for f, _ in new],
        'notes': ctx.notes,
    }
    if ctx._cg is not None:
        st = ctx.cg.stats()
        cov['call_sites'] = st['call_sites']
        cov['call_sites_resolved'] = st['call_sites_resolved']
        cov['call_sites_unresolved'] = st['call_sites_unresolved']
    if selftest is not None:
        cov['selftest'] = selftest
    cov.update(ctx.extra)
    ev = {
        'property_id': ctx.prop,
        'tier': ctx.tier,
        'seed': int(os.environ.get('VERIF_SEED', '0') or 0),
        'level': level,
        'coverage': cov,
        'assumptions': assumptions,
        'wall_s': round(time.time() - t0, 3),
        'violations': len(new),
    }
    os.makedirs(EVIDENCE_DIR, exist_ok=True)
    with open(os.path.join(EVIDENCE_DIR, ctx.prop + '.json'), 'w', encoding='utf8') as fh:
        json.dump(ev, fh, indent=1, sort_keys=True)
    print('%s: %d instance(s), %d satisfied, %d known finding(s), %d new violation(s)' % (
        ctx.prop, len(ctx.instances), len(ctx.instances) - len(ctx.findings), len(listed), len(new)))
    return rc


def run_sub(ctx, mod, rename):
    """Run another property's rule module on the same repo and import the instances of the rules named in `rename`
    ({their rule id: our rule id}) into ctx.  Used where a rule of one property is also a necessary condition of another."""
    sub = Ctx.__new__(Ctx)
    sub.__dict__.update(ctx.__dict__)
    sub.instances, sub.findings, sub.notes, sub.floors, sub.rules, sub.extra = [], [], [], {}, {}, {}
    mod.run(sub)
    n = 0
    for i in sub.instances:
        if i['rule'] in rename:
            j = dict(i)
            j['rule'] = rename[i['rule']]
            ctx.instances.append(j)
            if j['verdict'] != 'ok':
                ctx.findings.append(j)
            n += 1
    return n
