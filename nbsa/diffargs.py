"""Finite-domain evaluation of nbdime.args:resolve_diff_args: the function is run abstractly over every combination of (base is a git ref or a file) x (remote
absent, a ref, a file) x (no, empty, some extra paths) and its result compared with the documented resolution.  Nothing is executed: the AST is interpreted over
symbolic command-line words; a construct the interpreter does not know raises AnalysisError."""
import ast, itertools
from .core import AnalysisError, dotted, walk_no_nested


class _Sym:
    def __init__(self, name):
        self.name = name

    def __repr__(self):
        return '<%s>' % self.name

    def __eq__(self, o):
        return isinstance(o, _Sym) and o.name == self.name

    def __hash__(self):
        return hash(self.name)


_FALL = object()


def eval_resolve_diff_args(repo, cg, fn, world):
    """Run resolve_diff_args abstractly.  world: {'base': Sym|None, 'remote': Sym|None, 'paths': None|list, 'ref': set of syms that are git refs}"""
    aparam = fn.args.args[0].arg
    env = {}

    def truthy(v):
        if v is None or v is False:
            return False
        if isinstance(v, (list, tuple, str)):
            return len(v) > 0
        return True

    def ev(e):
        if isinstance(e, ast.Constant):
            return e.value
        if isinstance(e, ast.Name):
            if e.id in env:
                return env[e.id]
            raise AnalysisError('resolve_diff_args: name %s read before assignment in the model' % e.id)
        if isinstance(e, ast.Attribute) and dotted(e.value) == aparam and e.attr in ('base', 'remote', 'paths'):
            return world[e.attr]
        if isinstance(e, ast.Call) and dotted(e.func) == 'getattr' and len(e.args) >= 2 and dotted(e.args[0]) == aparam and isinstance(e.args[1], ast.Constant):
            if e.args[1].value in world:
                return world[e.args[1].value]
            return ev(e.args[2]) if len(e.args) > 2 else None
        if isinstance(e, ast.Call) and e.args and any(t[0] == 'func' and t[1].endswith(':is_gitref') for t in cg.resolve(e.func, fn)):
            v = ev(e.args[0])
            return isinstance(v, _Sym) and v in world['ref'] or v == 'HEAD'
        if isinstance(e, ast.Call) and dotted(e.func) in ('list', 'tuple') and len(e.args) == 1:
            v = ev(e.args[0])
            return list(v) if isinstance(v, (list, tuple)) else v
        if isinstance(e, ast.Call) and dotted(e.func) == 'bool' and len(e.args) == 1:
            return truthy(ev(e.args[0]))
        if isinstance(e, ast.Call) and dotted(e.func) == 'len' and len(e.args) == 1 and isinstance(ev(e.args[0]), (list, tuple)):
            return len(ev(e.args[0]))
        if isinstance(e, ast.Call) and dotted(e.func) == 'isinstance' and len(e.args) == 2:
            v = ev(e.args[0])
            tn = dotted(e.args[1])
            if tn in ('list', 'tuple', 'str'):
                return isinstance(v, {'list': list, 'tuple': tuple, 'str': (_Sym, str)}[tn])
        if isinstance(e, ast.UnaryOp) and isinstance(e.op, ast.Not):
            return not truthy(ev(e.operand))
        if isinstance(e, ast.BoolOp):
            v = None
            for x in e.values:
                v = ev(x)
                if isinstance(e.op, ast.And) and not truthy(v):
                    return v
                if isinstance(e.op, ast.Or) and truthy(v):
                    return v
            return v
        if isinstance(e, ast.IfExp):
            return ev(e.body) if truthy(ev(e.test)) else ev(e.orelse)
        if isinstance(e, ast.Compare) and len(e.ops) == 1:
            l, r = ev(e.left), ev(e.comparators[0])
            op = e.ops[0]
            if isinstance(op, ast.Is):
                return l is r or (l is None and r is None)
            if isinstance(op, ast.IsNot):
                return not (l is r or (l is None and r is None))
            if isinstance(op, ast.Eq):
                return l == r
            if isinstance(op, ast.NotEq):
                return l != r
        if isinstance(e, (ast.List, ast.Tuple)):
            out = []
            for x in e.elts:
                if isinstance(x, ast.Starred):
                    out.extend(ev(x.value))
                else:
                    out.append(ev(x))
            return out if isinstance(e, ast.List) else tuple(out)
        if isinstance(e, ast.BinOp) and isinstance(e.op, ast.Add):
            l, r = ev(e.left), ev(e.right)
            if isinstance(l, list) and isinstance(r, list):
                return l + r
        raise AnalysisError('resolve_diff_args: expression `%s` not modelled' % ast.unparse(e)[:70])

    def assign(t, v):
        if isinstance(t, ast.Name):
            env[t.id] = v
        elif isinstance(t, (ast.Tuple, ast.List)) and isinstance(v, (tuple, list)) and len(t.elts) == len(v):
            for a, b in zip(t.elts, v):
                assign(a, b)
        else:
            raise AnalysisError('resolve_diff_args: assignment target `%s` not modelled' % ast.unparse(t))

    def run(stmts):
        for st in stmts:
            if isinstance(st, ast.Expr) and isinstance(st.value, ast.Constant):
                continue
            if isinstance(st, ast.Pass):
                continue
            if isinstance(st, ast.Assign):
                v = ev(st.value)
                for t in st.targets:
                    assign(t, v)
                continue
            if isinstance(st, ast.If):
                r = run(st.body if truthy(ev(st.test)) else st.orelse)
                if r is not _FALL:
                    return r
                continue
            if isinstance(st, ast.Return):
                return ev(st.value) if st.value is not None else None
            raise AnalysisError('resolve_diff_args: statement `%s` not modelled' % ast.unparse(st)[:70])
        return _FALL
    return run(fn.body)


def expected(world):
    b, r, p = world['base'], world['remote'], world['paths']
    isref = lambda x: x in world['ref']
    p = p if p else None
    if r is None and p is None:
        return (b, None, None) if isref(b) else ('HEAD', None, b)
    if p is None:
        return (b, None, r) if isref(b) and not isref(r) else (b, r, None)
    if b is not None and r is not None:
        if not isref(b):
            return ('HEAD', None, [b, r] + p)
        if not isref(r):
            return (b, None, [r] + p)
    return (b, r, p)


def worlds():
    B, R, P1, P2 = _Sym('base'), _Sym('remote'), _Sym('p1'), _Sym('p2')
    for bref, rem, pths in itertools.product((True, False), ('none', 'ref', 'file'), (None, [], [P1, P2])):
        ref = set()
        if bref:
            ref.add(B)
        if rem == 'ref':
            ref.add(R)
        if rem == 'none' and pths:
            continue        # argparse fills positionals left to right: paths without a remote cannot happen
        yield {'base': B, 'remote': None if rem == 'none' else R, 'paths': pths, 'ref': ref}


def norm(v):
    if isinstance(v, tuple) and len(v) == 3:
        a, b, c = v
        if isinstance(c, tuple):
            c = list(c)
        return (a, b, c)
    return v
