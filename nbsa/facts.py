"""Shared fact tables: API roots, HTTP handlers, module-level mutable state."""
import ast

from .core import AnalysisError, dotted, FuncTypes, walk_no_nested
from .calls import HTTP_VERBS

DIFF_API = ['nbdime.diffing.generic:diff', 'nbdime.diffing.notebooks:diff_notebooks']
PATCH_API = ['nbdime.patching:patch', 'nbdime.patching:patch_notebook']
MERGE_API = ['nbdime.merging.generic:decide_merge', 'nbdime.merging.generic:decide_merge_with_diff',
             'nbdime.merging.notebooks:decide_notebook_merge', 'nbdime.merging.notebooks:merge_notebooks',
             'nbdime.merging.decisions:apply_decisions']


def render_api(repo):
    out = sorted(f for f in repo.functions if f.startswith('nbdime.prettyprint:pretty_print_'))
    if len(out) < 15:
        raise AnalysisError('fewer pretty_print_* functions than expected: %d' % len(out))
    return out


def lib_api(repo):
    roots = DIFF_API + PATCH_API + MERGE_API
    for r in roots:
        repo.func(r)
    return roots + render_api(repo)


def http_handlers(repo, cg, modules=('nbdime.webapp.nbdimeserver', 'nbdime.webapp.nb_server_extension')):
    """fid list of HTTP verb methods of tornado handler classes."""
    out = []
    for cid, c in repo.classes.items():
        if cid.split(':')[0] not in modules:
            continue
        if not cg.is_handler_class(cid):
            continue
        for st in c.body:
            if isinstance(st, FuncTypes) and st.name in HTTP_VERBS:
                out.append(repo.fid_of(st))
    if len(out) < 9:
        raise AnalysisError('fewer HTTP handler methods than expected: %d' % len(out))
    return sorted(out)


MUTABLE_CTORS = {'dict', 'list', 'set', 'defaultdict', 'defaultdict2', 'OrderedDict', 'deque', 'Counter', 'bytearray'}
MUTATORS = {'append', 'extend', 'insert', 'pop', 'remove', 'clear', 'update', 'setdefault', 'sort',
            'reverse', 'popitem', 'add', 'discard', 'appendleft', 'popleft', '__setitem__', '__delitem__'}


def module_globals(repo, cg):
    """(modname, name) -> {'kind': ..., 'node': value node, 'ctor': str} for module-level mutable objects."""
    out = {}
    for m in repo.modules.values():
        for name, vals in m.assigns.items():
            v = vals[-1]
            kind = None
            ctor = None
            if isinstance(v, (ast.Dict, ast.List, ast.Set, ast.ListComp, ast.DictComp, ast.SetComp)):
                kind, ctor = 'literal', type(v).__name__.lower()
            elif isinstance(v, ast.Call):
                d = (dotted(v.func) or '')
                last = d.split('.')[-1]
                if last in MUTABLE_CTORS:
                    kind, ctor = 'container', last
                else:
                    t = cg.res.resolve_expr_modlevel(m, v.func)
                    if t and t[0] == 'class':
                        kind, ctor = 'instance', t[1]
            if kind:
                out[(m.name, name)] = {'kind': kind, 'ctor': ctor, 'node': v}
    return out


def auto_inserting(repo, cg, ginfo):
    """Does a subscript *load* on this object store the looked-up default?  (bool, reason)"""
    ctor = ginfo['ctor']
    if ctor == 'defaultdict':
        n = ginfo['node']
        if n.args and not (isinstance(n.args[0], ast.Constant) and n.args[0].value is None):
            return True, 'collections.defaultdict stores the factory value on a missing-key lookup'
        return False, 'defaultdict without factory'
    # package subclass with __missing__
    for cid, c in repo.classes.items():
        if cid.split(':')[-1] == ctor:
            for st in c.body:
                if isinstance(st, FuncTypes) and st.name == '__missing__':
                    for n in ast.walk(st):
                        if isinstance(n, (ast.Assign, ast.AugAssign)):
                            tg = n.targets if isinstance(n, ast.Assign) else [n.target]
                            for t in tg:
                                if isinstance(t, ast.Subscript) and dotted(t.value) == 'self':
                                    return True, '%s.__missing__ stores self[key]' % cid
                        if isinstance(n, ast.Call) and isinstance(n.func, ast.Attribute) and \
                                n.func.attr in ('__missing__', 'setdefault', '__setitem__'):
                            return True, '%s.__missing__ delegates to an inserting %s' % (cid, n.func.attr)
                    return False, '%s.__missing__ returns the default without storing it' % cid
            bases = [dotted(b) or '' for b in c.bases]
            if any(b.split('.')[-1] == 'defaultdict' for b in bases):
                return True, '%s inherits defaultdict.__missing__ (stores)' % cid
    return False, 'plain container'


FS_PATH_SINKS = {
    'os.remove': 0, 'os.unlink': 0, 'os.rmdir': 0, 'os.removedirs': 0, 'os.makedirs': 0, 'os.mkdir': 0,
    'os.rename': (0, 1), 'os.replace': (0, 1), 'os.truncate': 0, 'os.chmod': 0,
    'shutil.rmtree': 0, 'shutil.copy': 1, 'shutil.copyfile': 1, 'shutil.copy2': 1, 'shutil.move': (0, 1),
    'shutil.copytree': 1,
}


def fs_sinks(repo, cg, fn):
    """File-system write effects in fn: list of (call, what, [path exprs])."""
    from .util import const_val, NOVAL
    out = []
    for c in ast.walk(fn):
        if not isinstance(c, ast.Call) or repo.func_of(c) is not fn:
            continue
        names = [t[1] for t in cg.resolve(c.func, fn) if t[0] == 'ext']
        d = dotted(c.func) or ''
        if any(n in ('io.open', 'builtins.open', 'codecs.open') for n in names) or d == 'open':
            mode = 'r'
            if len(c.args) > 1:
                mode = const_val(c.args[1])
            for k in c.keywords:
                if k.arg == 'mode':
                    mode = const_val(k.value)
            if mode is NOVAL or any(ch in str(mode) for ch in 'wax+'):
                out.append((c, 'open(mode=%r)' % (None if mode is NOVAL else mode), [c.args[0]] if c.args else []))
            continue
        for n in names:
            if n in FS_PATH_SINKS:
                idx = FS_PATH_SINKS[n]
                idx = idx if isinstance(idx, tuple) else (idx,)
                out.append((c, n, [c.args[i] for i in idx if i < len(c.args)]))
            elif n in ('nbformat.write',) and len(c.args) > 1:
                out.append((c, n, [c.args[1]]))
    return out
