"""Concrete evaluation of the type-strict scalar equality (nbdime.diffing.generic:compare_strict) over a finite set of JSON scalars.

The predicate decides "unchanged" for every leaf of a document.  What it must compute is fixed by JSON: two scalars are the same value iff they are
written the same way.  The function's AST is interpreted (nothing is imported or run) over all pairs of representatives -- null, false, true, 0, 1,
0.0, -0.0, 1.0, NaN, a second NaN object, "", "s" -- and the answers are compared with `same JSON text`.  A construct the interpreter does not know
raises AnalysisError."""
import ast
import math

from .core import AnalysisError, dotted


class _NaN(float):
    """a NaN that is a distinct object each time (identity shortcuts must not help)"""


def representatives():
    return [('null', None), ('false', False), ('true', True), ('0', 0), ('1', 1), ('0.0', 0.0), ('-0.0', -0.0), ('1.0', 1.0),
            ('NaN', float('nan')), ('NaN\'', float('nan')), ('""', ''), ('"s"', 's')]


def json_text(v):
    if v is None:
        return 'null'
    if v is True:
        return 'true'
    if v is False:
        return 'false'
    if isinstance(v, float):
        if v != v:
            return 'NaN'
        return repr(v)
    if isinstance(v, int):
        return str(v)
    return 'str:' + v


_TYPES = {'bool': bool, 'int': int, 'float': float, 'str': str, 'list': list, 'dict': dict, 'tuple': tuple, 'type(None)': type(None)}


class _Ret(Exception):
    def __init__(self, v):
        self.v = v


def call_function(repo, cg, fn, args, depth=0):
    if depth > 4:
        raise AnalysisError('scalar equality: call depth exceeded')
    env = {a.arg: v for a, v in zip(fn.args.args, args)}

    def ev(e):
        if isinstance(e, ast.Constant):
            return e.value
        if isinstance(e, ast.Name):
            if e.id in env:
                return env[e.id]
            if e.id in _TYPES:
                return _TYPES[e.id]
            raise AnalysisError('scalar equality: name %s not modelled' % e.id)
        if isinstance(e, ast.Tuple):
            return tuple(ev(x) for x in e.elts)
        if isinstance(e, ast.UnaryOp) and isinstance(e.op, ast.Not):
            return not ev(e.operand)
        if isinstance(e, ast.BoolOp):
            v = None
            for x in e.values:
                v = ev(x)
                if isinstance(e.op, ast.And) and not v:
                    return v
                if isinstance(e.op, ast.Or) and v:
                    return v
            return v
        if isinstance(e, ast.IfExp):
            return ev(e.body) if ev(e.test) else ev(e.orelse)
        if isinstance(e, ast.Compare):
            left = ev(e.left)
            for op, c in zip(e.ops, e.comparators):
                right = ev(c)
                if isinstance(op, ast.Eq):
                    r = left == right
                elif isinstance(op, ast.NotEq):
                    r = left != right
                elif isinstance(op, ast.Is):
                    r = left is right
                elif isinstance(op, ast.IsNot):
                    r = left is not right
                elif isinstance(op, ast.In):
                    r = left in right
                elif isinstance(op, ast.NotIn):
                    r = left not in right
                else:
                    raise AnalysisError('scalar equality: comparison %s not modelled' % type(op).__name__)
                if not r:
                    return False
                left = right
            return True
        if isinstance(e, ast.Call):
            d = dotted(e.func) or ''
            a = [ev(x) for x in e.args]
            if d == 'isinstance' and len(a) == 2:
                return isinstance(a[0], a[1])
            if d == 'type' and len(a) == 1:
                return type(a[0])
            if d in ('math.copysign', 'copysign') and len(a) == 2:
                return math.copysign(a[0], a[1])
            if d in ('math.isnan', 'isnan') and len(a) == 1:
                return isinstance(a[0], float) and math.isnan(a[0])
            if d in ('repr', 'str') and len(a) == 1:
                return repr(a[0]) if d == 'repr' else str(a[0])
            if d in ('bool', 'float', 'int') and len(a) == 1:
                return {'bool': bool, 'float': float, 'int': int}[d](a[0])
            for t in cg.resolve(e.func, fn):
                if t[0] == 'func' and t[1] in repo.functions:
                    return call_function(repo, cg, repo.functions[t[1]], a, depth + 1)
            raise AnalysisError('scalar equality: call %s not modelled' % (d or ast.unparse(e.func)))
        raise AnalysisError('scalar equality: expression `%s` not modelled' % ast.unparse(e)[:60])

    def run(stmts):
        for st in stmts:
            if isinstance(st, ast.Expr) and isinstance(st.value, ast.Constant):
                continue
            if isinstance(st, ast.Pass):
                continue
            if isinstance(st, ast.Return):
                raise _Ret(ev(st.value) if st.value is not None else None)
            if isinstance(st, ast.If):
                run(st.body if ev(st.test) else st.orelse)
                continue
            if isinstance(st, ast.Assign) and len(st.targets) == 1 and isinstance(st.targets[0], ast.Name):
                env[st.targets[0].id] = ev(st.value)
                continue
            raise AnalysisError('scalar equality: statement `%s` not modelled' % ast.unparse(st)[:60])
    try:
        run(fn.body)
    except _Ret as r:
        return r.v
    return None


def truth_table(repo, cg, fn):
    """[(label_x, label_y, got, want)] over all ordered pairs"""
    reps = representatives()
    out = []
    for lx, x in reps:
        for ly, y in reps:
            got = bool(call_function(repo, cg, fn, [x, y]))
            want = json_text(x) == json_text(y)
            out.append((lx, ly, got, want))
    return out
