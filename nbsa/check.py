"""CLI:  python -m nbsa.check C12 --tier quick|thorough [--root DIR]
         python -m nbsa.check --replay FILE [--root DIR]

exit 0  property's rules hold on everything analysed (known findings printed as KNOWN-FINDING)
exit 1  at least one finding not listed in known_findings.json (VIOLATION line per finding)
exit 2  analysis broken (missing anchor, parse error, instance floor not met, self-test failed)
"""
import argparse
import importlib
import json
import os
import sys
import time
import traceback

from .core import AnalysisError
from .report import Ctx, finish

PROPS = ['C%02d' % i for i in range(1, 21)]


def run_property(prop, tier, root, selftest=True):
    t0 = time.time()
    mod = importlib.import_module('nbsa.rules.' + prop.lower())
    ctx = Ctx(root, prop, tier)
    mod.run(ctx)
    st = None
    if tier == 'thorough' and selftest:
        from .selftest import run_selftest
        st = run_selftest(prop, root)
    return finish(ctx, t0, getattr(mod, 'ASSUMPTIONS', []), selftest=st)


def main(argv=None):
    ap = argparse.ArgumentParser()
    ap.add_argument('prop', nargs='?')
    ap.add_argument('--tier', default=os.environ.get('VERIF_TIER') or 'quick',
                    choices=['quick', 'thorough'])
    ap.add_argument('--root', default=os.environ.get('NBSA_ROOT', '/repo'))
    ap.add_argument('--replay')
    ap.add_argument('--no-selftest', action='store_true')
    args = ap.parse_args(argv)
    try:
        if args.replay:
            with open(args.replay) as f:
                rep = json.load(f)
            prop = rep['property']
            mod = importlib.import_module('nbsa.rules.' + prop.lower())
            ctx = Ctx(args.root, prop, 'quick')
            mod.run(ctx)
            hit = [f for f in ctx.findings if f['rule'] == rep['rule'] and
                   f['where'] == rep['where'] and f['construct'] == rep['construct']]
            if hit:
                f = hit[0]
                print('replayed: %s %s [%s] %s -- %s' % (f['rule'], f['where'], f.get('at', '?'),
                                                         f['construct'], f['why']))
                print('VIOLATION property=%s replay=%s' % (prop, args.replay))
                return 1
            print('finding no longer present on %s: %s %s %s' % (
                args.root, rep['rule'], rep['where'], rep['construct']))
            return 0
        if args.prop not in PROPS:
            ap.error('property must be one of %s' % ' '.join(PROPS))
        return run_property(args.prop, args.tier, args.root, selftest=not args.no_selftest)
    except AnalysisError as e:
        print('ANALYSIS-ERROR: %s' % e)
        return 2
    except Exception:
        traceback.print_exc()
        print('ANALYSIS-ERROR: internal error in analyser (traceback above)')
        return 2


if __name__ == '__main__':
    sys.exit(main())
