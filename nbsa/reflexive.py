"""Reflexivity of alignment predicates: compare(x, x) is True.

Identical items must align: the diff of identical documents is empty (C01), an untouched output keeps its identity
when only ignored parts differ (C14), merging identical sides is an agreement (C05).  Each predicate `compare_*(…, x, y)` of
the diffing package is walked under the substitution y := x (locals that are assigned once are inlined): every
`return False` reached before a `return True` whose guard holds for identical arguments must have a guard that is
unsatisfiable for identical arguments.  Folding knows: e == e, e != e, set(e) != set(e), bool(e) != bool(e), and/or/not,
and assumes (inductively) that other predicates of the package are reflexive.  Anything it cannot fold is left undecided
(no finding) -- except a `return False` whose guard does not mention both arguments at all (a cutoff that does not
compare anything), which is reported.
"""
import ast
import copy

from .core import walk_no_nested
from .util import local_defs

T, F, U = True, False, None


class _Subst(ast.NodeTransformer):
    def __init__(self, mapping):
        self.mapping = mapping

    def visit_Name(self, n):
        if n.id in self.mapping:
            return copy.deepcopy(self.mapping[n.id])
        return n


def _same(a, b):
    return ast.dump(a) == ast.dump(b)


def fold(e, is_pred):
    if isinstance(e, ast.Constant):
        return bool(e.value)
    if isinstance(e, ast.UnaryOp) and isinstance(e.op, ast.Not):
        v = fold(e.operand, is_pred)
        return U if v is U else (not v)
    if isinstance(e, ast.BoolOp):
        vals = [fold(v, is_pred) for v in e.values]
        if isinstance(e.op, ast.And):
            if any(v is F for v in vals):
                return F
            return T if all(v is T for v in vals) else U
        if any(v is T for v in vals):
            return T
        return F if all(v is F for v in vals) else U
    if isinstance(e, ast.Compare) and len(e.ops) == 1:
        if _same(e.left, e.comparators[0]):
            if isinstance(e.ops[0], (ast.Eq, ast.Is, ast.LtE, ast.GtE)):
                return T
            if isinstance(e.ops[0], (ast.NotEq, ast.IsNot, ast.Lt, ast.Gt)):
                return F
        return U
    if isinstance(e, ast.Call) and is_pred(e) and len(e.args) >= 2 and _same(e.args[-1], e.args[-2]):
        return T
    if isinstance(e, ast.Call) and isinstance(e.func, ast.Name) and e.func.id in ('all', 'any') and e.args and \
            isinstance(e.args[0], (ast.GeneratorExp, ast.ListComp)):
        v = fold(e.args[0].elt, is_pred)
        if e.func.id == 'all' and v is T:
            return T
        if e.func.id == 'any' and v is F:
            return F
        return U
    return U


def check_reflexive(ctx, rule, module_prefixes=('nbdime.diffing.generic', 'nbdime.diffing.notebooks')):
    repo, cg = ctx.repo, ctx.cg
    preds = {fid for fid in repo.functions if fid.startswith(module_prefixes) and fid.split(':')[1].startswith('compare_') and '.' not in fid.split(':')[1]}
    n = 0
    for fid in sorted(preds):
        fn = repo.functions[fid]
        ps = [a.arg for a in fn.args.args]
        pair = None
        for i in range(len(ps) - 1):
            a, b = ps[i], ps[i + 1]
            if a.startswith('x') and b == 'y' + a[1:]:
                pair = (a, b)
        if pair is None:
            continue
        n += 1
        x, y = pair
        defs = local_defs(fn)
        mapping = {y: ast.Name(id=x, ctx=ast.Load())}
        # inline single-assignment locals (after substituting y := x inside them)
        for name, ds in defs.items():
            if len(ds) == 1 and ds[0][1] == 'assign' and name not in (x, y):
                mapping[name] = None
        for _ in range(3):
            for name in list(mapping):
                if mapping[name] is None or name != y:
                    ds = defs.get(name)
                    if ds and len(ds) == 1 and ds[0][1] == 'assign':
                        m2 = {k: v for k, v in mapping.items() if v is not None and k != name}
                        mapping[name] = _Subst(m2).visit(copy.deepcopy(ds[0][0]))
        mapping = {k: v for k, v in mapping.items() if v is not None}

        def is_pred(call):
            return any(t[0] == 'func' and t[1] in preds for t in cg.resolve(call.func, fn)) or \
                (isinstance(call.func, ast.Name) and call.func.id.startswith('compare_'))
        verdict = None      # (kind, node, text)

        def walk(stmts, guards):
            nonlocal verdict
            for st in stmts:
                if verdict is not None:
                    return
                if isinstance(st, ast.If):
                    t = _Subst(mapping).visit(copy.deepcopy(st.test))
                    v = fold(t, is_pred)
                    if v is not F:
                        walk(st.body, guards + [(st.test, v)])
                    if verdict is None and v is not T:
                        walk(st.orelse, guards)
                    if v is T and verdict is None and _always_returns(st.body):
                        verdict = ('true', st, '')
                elif isinstance(st, ast.Return):
                    val = st.value
                    if isinstance(val, ast.Constant) and val.value is False:
                        unknown = [g for g, v in guards if v is U]
                        if not unknown:
                            verdict = ('false-certain', st, '')
                        else:
                            # a cutoff that compares nothing: the arguments appear in the undecided guards only through len()
                            if all(_sizes_only(g, x, y) for g in unknown):
                                verdict = ('false-cutoff', st, ' and '.join(ast.unparse(g) for g in unknown))
                    elif isinstance(val, ast.Constant) and val.value is True:
                        if all(v is T for g, v in guards):
                            verdict = ('true', st, '')
                    else:
                        t = _Subst(mapping).visit(copy.deepcopy(val)) if val is not None else None
                        v = fold(t, is_pred) if t is not None else U
                        if all(gv is T for g, gv in guards):
                            verdict = ('true' if v is T else ('false-certain' if v is F else 'undecided'), st, '')
                elif isinstance(st, (ast.For, ast.While)):
                    walk(st.body, guards + [(ast.Constant(value=None), U)])
                elif isinstance(st, ast.Raise):
                    if all(v is T for g, v in guards):
                        verdict = ('undecided', st, '')
        walk(fn.body, [])
        kind = verdict[0] if verdict else 'undecided'
        ok = kind in ('true', 'undecided')
        ctx.inst(rule, fid, 'compare(%s, %s) with identical arguments: %s' % (x, y, {'true': 'returns True', 'undecided': 'not decided by folding',
                                                                                   'false-certain': 'returns False', 'false-cutoff': 'can return False'}[kind]), ok,
                 'identical items are similar (or the outcome depends on heuristics the rule does not fold)' if ok else
                 'for identical arguments this `return False` is reached %s, before the equality shortcut: identical items no longer align, so an unchanged item is '
                 'reported as removed and re-added (and per-path ignores below it never see it)' % (
                     ('when ' + verdict[2]) if verdict[2] else 'unconditionally'), verdict[1] if verdict else fn, nontrivial=kind != 'undecided')
    return n


def _always_returns(body):
    return bool(body) and isinstance(body[-1], (ast.Return, ast.Raise))


def _sizes_only(g, x, y):
    """the guard refers to the arguments only through len(...) / maxlen-style size tests"""
    names = [n for n in ast.walk(g) if isinstance(n, ast.Name) and n.id in (x, y)]
    if not names:
        return False
    lens = [c for c in ast.walk(g) if isinstance(c, ast.Call) and isinstance(c.func, ast.Name) and c.func.id == 'len']
    covered = set()
    for c in lens:
        for nm in ast.walk(c):
            if isinstance(nm, ast.Name):
                covered.add(id(nm))
    return all(id(n) in covered for n in names)
