"""A small interpreter for tiny pure helper functions, used to tabulate them over a finite set of inputs.

Nothing of nbdime is imported or run: the function's AST is walked with the semantics of the handful of constructs such helpers use (loops over
range / enumerate / a sequence, isinstance, subscripts and slices, tuple results, + and -).  Anything else raises AnalysisError (no verdict).
The loop fuel bounds every evaluation."""
import ast

from .core import AnalysisError, dotted

_TYPES = {'bool': bool, 'int': int, 'float': float, 'str': str, 'list': list, 'dict': dict, 'tuple': tuple, 'set': set, 'bytes': bytes}


class _Ret(Exception):
    def __init__(self, v):
        self.v = v


class _Break(Exception):
    pass


class _Continue(Exception):
    pass


class Raised(Exception):
    """the interpreted function raised (IndexError / KeyError / TypeError of a subscript)"""


_METHODS = {'join', 'startswith', 'endswith', 'strip', 'lstrip', 'rstrip', 'split', 'rsplit', 'splitlines', 'decode', 'encode', 'lower', 'upper', 'replace',
            'match', 'search', 'fullmatch', 'append', 'get', 'keys', 'values', 'items', 'index', 'count', 'isdigit', 'pop', 'setdefault', 'update', 'copy'}


def call(fn, args, what='helper', fuel=2000, globs=None, _left=None):
    """globs: name -> FunctionDef (interpreted) | any Python value (e.g. a compiled regular expression built from the module's literal)"""
    globs = globs or {}
    pos = fn.args.args
    env = {a.arg: v for a, v in zip(pos, args)}
    dfl = fn.args.defaults
    for a, d in zip(pos[len(pos) - len(dfl):], dfl):
        if a.arg not in env and isinstance(d, ast.Constant):
            env[a.arg] = d.value
    if fn.args.vararg is not None:
        env[fn.args.vararg.arg] = tuple(args[len(pos):])
    elif len(args) > len(pos):
        raise AnalysisError('%s: too many arguments' % what)
    left = _left if _left is not None else [fuel]

    def tick():
        left[0] -= 1
        if left[0] < 0:
            raise AnalysisError('%s: evaluation does not terminate within the fuel' % what)

    def ev(e):
        tick()
        if isinstance(e, ast.Constant):
            return e.value
        if isinstance(e, ast.Name):
            if e.id in env:
                return env[e.id]
            if e.id in _TYPES:
                return _TYPES[e.id]
            if e.id in globs and not isinstance(globs[e.id], ast.AST):
                return globs[e.id]
            raise AnalysisError('%s: name %s not modelled' % (what, e.id))
        if isinstance(e, ast.ListComp):
            out = []

            def gen(i):
                if i == len(e.generators):
                    out.append(ev(e.elt))
                    return
                g = e.generators[i]
                for v in list(ev(g.iter)):
                    bind(g.target, v)
                    if all(ev(c) for c in g.ifs):
                        gen(i + 1)
            gen(0)
            return out
        if isinstance(e, ast.Tuple):
            return tuple(ev(x) for x in e.elts)
        if isinstance(e, ast.List):
            return [ev(x) for x in e.elts]
        if isinstance(e, ast.Dict) and all(k is not None for k in e.keys):
            return {ev(k): ev(v) for k, v in zip(e.keys, e.values)}
        if isinstance(e, ast.UnaryOp):
            v = ev(e.operand)
            if isinstance(e.op, ast.Not):
                return not v
            if isinstance(e.op, ast.USub):
                return -v
        if isinstance(e, ast.BoolOp):
            v = None
            for x in e.values:
                v = ev(x)
                if isinstance(e.op, ast.And) and not v:
                    return v
                if isinstance(e.op, ast.Or) and v:
                    return v
            return v
        if isinstance(e, ast.IfExp):
            return ev(e.body) if ev(e.test) else ev(e.orelse)
        if isinstance(e, ast.BinOp) and isinstance(e.op, (ast.Add, ast.Sub)):
            l, r = ev(e.left), ev(e.right)
            try:
                return l + r if isinstance(e.op, ast.Add) else l - r
            except TypeError as ex:
                raise Raised('TypeError: %s' % ex)
        if isinstance(e, ast.Compare):
            left_ = ev(e.left)
            for op, c in zip(e.ops, e.comparators):
                right = ev(c)
                table = {ast.Eq: lambda a, b: a == b, ast.NotEq: lambda a, b: a != b, ast.Is: lambda a, b: a is b, ast.IsNot: lambda a, b: a is not b,
                         ast.In: lambda a, b: a in b, ast.NotIn: lambda a, b: a not in b, ast.Lt: lambda a, b: a < b, ast.LtE: lambda a, b: a <= b,
                         ast.Gt: lambda a, b: a > b, ast.GtE: lambda a, b: a >= b}
                f = table.get(type(op))
                if f is None:
                    raise AnalysisError('%s: comparison not modelled' % what)
                if not f(left_, right):
                    return False
                left_ = right
            return True
        if isinstance(e, ast.Subscript):
            b = ev(e.value)
            try:
                if isinstance(e.slice, ast.Slice):
                    lo = ev(e.slice.lower) if e.slice.lower is not None else None
                    hi = ev(e.slice.upper) if e.slice.upper is not None else None
                    st = ev(e.slice.step) if e.slice.step is not None else None
                    return b[lo:hi:st]
                return b[ev(e.slice)]
            except (IndexError, KeyError, TypeError) as ex:
                raise Raised('%s: %s' % (type(ex).__name__, ex))
        if isinstance(e, ast.Call):
            d = dotted(e.func) or ''
            a = [ev(x) for x in e.args] if not any(isinstance(x, ast.Starred) for x in e.args) else []
            if d == 'isinstance' and len(a) == 2:
                return isinstance(a[0], a[1])
            if d == 'len' and len(a) == 1:
                return len(a[0])
            if d == 'range':
                return range(*a)
            if d == 'enumerate':
                return list(enumerate(*a))
            if d in ('tuple', 'list') and len(a) <= 1:
                return (tuple if d == 'tuple' else list)(*a)
            if d == 'str' and len(a) == 1:
                return str(a[0])
            if d == 'dict' and len(a) <= 1 and not e.keywords:
                return dict(*a)
            if isinstance(e.func, ast.Name) and isinstance(globs.get(e.func.id), ast.AST):
                flat = []
                for x in e.args:
                    if isinstance(x, ast.Starred):
                        flat.extend(ev(x.value))
                    else:
                        flat.append(ev(x))
                return call(globs[e.func.id], flat, what=what, globs=globs, _left=left)
            if isinstance(e.func, ast.Attribute) and e.func.attr in _METHODS:
                recv = ev(e.func.value)
                if isinstance(recv, (str, bytes, list, tuple, dict)) or type(recv).__name__ == 'Pattern':
                    try:
                        return getattr(recv, e.func.attr)(*a)
                    except (TypeError, ValueError, AttributeError, UnicodeError) as ex:
                        raise Raised('%s: %s' % (type(ex).__name__, ex))
            raise AnalysisError('%s: call %s not modelled' % (what, d or ast.unparse(e.func)))
        raise AnalysisError('%s: expression `%s` not modelled' % (what, ast.unparse(e)[:60]))

    def bind(t, v):
        if isinstance(t, ast.Name):
            env[t.id] = v
        elif isinstance(t, ast.Subscript) and not isinstance(t.slice, ast.Slice):
            try:
                ev(t.value)[ev(t.slice)] = v
            except (IndexError, KeyError, TypeError) as ex:
                raise Raised('%s: %s' % (type(ex).__name__, ex))
        elif isinstance(t, (ast.Tuple, ast.List)):
            v = list(v)
            if len(v) != len(t.elts):
                raise Raised('ValueError: unpack')
            for x, y in zip(t.elts, v):
                bind(x, y)
        else:
            raise AnalysisError('%s: assignment target `%s` not modelled' % (what, ast.unparse(t)))

    def run(stmts):
        for st in stmts:
            tick()
            if isinstance(st, ast.Expr) and isinstance(st.value, ast.Constant):
                continue
            if isinstance(st, ast.Pass):
                continue
            if isinstance(st, ast.Return):
                raise _Ret(ev(st.value) if st.value is not None else None)
            if isinstance(st, ast.Expr) and isinstance(st.value, ast.Call):
                ev(st.value)
                continue
            if isinstance(st, ast.Delete) and all(isinstance(t, ast.Subscript) and not isinstance(t.slice, ast.Slice) for t in st.targets):
                for t in st.targets:
                    try:
                        del ev(t.value)[ev(t.slice)]
                    except (KeyError, IndexError, TypeError) as ex:
                        raise Raised('%s: %s' % (type(ex).__name__, ex))
                continue
            if isinstance(st, ast.Break):
                raise _Break()
            if isinstance(st, ast.Continue):
                raise _Continue()
            if isinstance(st, ast.If):
                run(st.body if ev(st.test) else st.orelse)
                continue
            if isinstance(st, ast.Assign) and len(st.targets) == 1:
                bind(st.targets[0], ev(st.value))
                continue
            if isinstance(st, ast.AugAssign) and isinstance(st.target, ast.Name) and isinstance(st.op, (ast.Add, ast.Sub)):
                v = ev(st.value)
                env[st.target.id] = env[st.target.id] + v if isinstance(st.op, ast.Add) else env[st.target.id] - v
                continue
            if isinstance(st, ast.For):
                broke = False
                for v in list(ev(st.iter)):
                    bind(st.target, v)
                    try:
                        run(st.body)
                    except _Break:
                        broke = True
                        break
                    except _Continue:
                        continue
                if not broke:
                    run(st.orelse)
                continue
            if isinstance(st, ast.While):
                broke = False
                while ev(st.test):
                    try:
                        run(st.body)
                    except _Break:
                        broke = True
                        break
                    except _Continue:
                        continue
                if not broke:
                    run(st.orelse)
                continue
            if isinstance(st, ast.Assert):
                if not ev(st.test):
                    raise Raised('AssertionError')
                continue
            raise AnalysisError('%s: statement `%s` not modelled' % (what, ast.unparse(st)[:60]))
    try:
        run(fn.body)
    except _Ret as r:
        return r.v
    return None
