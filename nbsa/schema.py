"""nbformat JSON schemas read as data (never importing nbformat), and nbdime's own two schemas."""
import json

from .core import AnalysisError, find_pkg_file


def load_nbformat_schema(minor):
    p = find_pkg_file('nbformat', 'v4', 'nbformat.v4.%d.schema.json' % minor)
    with open(p, encoding='utf8') as f:
        return json.load(f)


class NbSchema:
    def __init__(self, minor=5):
        self.minor = minor
        self.s = load_nbformat_schema(minor)

    def deref(self, node):
        seen = 0
        while isinstance(node, dict) and '$ref' in node and seen < 20:
            ref = node['$ref']
            if not ref.startswith('#/'):
                raise AnalysisError('unsupported $ref %s' % ref)
            cur = self.s
            for part in ref[2:].split('/'):
                cur = cur[part]
            node = cur
            seen += 1
        return node

    def alternatives(self, node):
        """Expand oneOf/anyOf/allOf into a flat list of concrete schema nodes."""
        node = self.deref(node)
        out = []
        if not isinstance(node, dict):
            return [node]
        for k in ('oneOf', 'anyOf'):
            if k in node:
                for alt in node[k]:
                    out.extend(self.alternatives(alt))
        if out:
            return out
        return [node]

    def at(self, starred):
        """All schema nodes at a starred path like /cells/*/outputs/*/metadata."""
        parts = [p for p in starred.strip('/').split('/') if p]
        nodes = [self.s]
        for part in parts:
            nxt = []
            for n in nodes:
                for alt in self.alternatives(n):
                    if not isinstance(alt, dict):
                        continue
                    if part == '*':
                        if 'items' in alt:
                            nxt.append(alt['items'])
                        if alt.get('type') == 'object' and isinstance(alt.get('additionalProperties'), dict):
                            nxt.append(alt['additionalProperties'])
                        if 'patternProperties' in alt:
                            nxt.extend(alt['patternProperties'].values())
                    else:
                        props = alt.get('properties', {})
                        if part in props:
                            nxt.append(props[part])
            nodes = nxt
        res = []
        for n in nodes:
            res.extend(self.alternatives(n))
        return res

    def types_at(self, starred):
        """Set of JSON types admitted at the path ('string','array','object','integer','null',...)."""
        out = set()
        for n in self.at(starred):
            if not isinstance(n, dict):
                continue
            t = n.get('type')
            if isinstance(t, list):
                out |= set(t)
            elif isinstance(t, str):
                out.add(t)
            elif 'enum' in n:
                for v in n['enum']:
                    out.add(_jtype(v))
            elif 'const' in n:
                out.add(_jtype(n['const']))
            elif 'properties' in n:
                out.add('object')
        return out

    def is_const_at(self, starred):
        ns = [n for n in self.at(starred) if isinstance(n, dict)]
        if not ns:
            return False
        for n in ns:
            if 'const' in n:
                continue
            if n.get('type') == 'integer' and 'minimum' in n and n.get('minimum') == n.get('maximum'):
                continue
            return False
        return True

    def paths_of_property(self, name, max_depth=6):
        """Every starred path at which a property called `name` is declared."""
        found = set()

        def walk(node, path, depth, seen):
            if depth > max_depth:
                return
            for alt in self.alternatives(node):
                if not isinstance(alt, dict) or id(alt) in seen:
                    continue
                seen2 = seen | {id(alt)}
                for k, v in alt.get('properties', {}).items():
                    p = path + '/' + k
                    if k == name:
                        found.add(p)
                    walk(v, p, depth + 1, seen2)
                if 'items' in alt:
                    walk(alt['items'], path + '/*', depth + 1, seen2)
                if isinstance(alt.get('additionalProperties'), dict):
                    walk(alt['additionalProperties'], path + '/*', depth + 1, seen2)
                for v in alt.get('patternProperties', {}).values():
                    walk(v, path + '/*', depth + 1, seen2)
        walk(self.s, '', 0, frozenset())
        return found

    def cell_defs(self):
        d = self.s.get('definitions', {})
        return {k: v for k, v in d.items() if k in ('raw_cell', 'markdown_cell', 'code_cell')}


def _jtype(v):
    if v is None:
        return 'null'
    if isinstance(v, bool):
        return 'boolean'
    if isinstance(v, int):
        return 'integer'
    if isinstance(v, float):
        return 'number'
    if isinstance(v, str):
        return 'string'
    if isinstance(v, list):
        return 'array'
    return 'object'
