"""Name binding rules (compile-fail-like checks for a language without a compiler).

(1) undefined names: every name a function refers to as a global is bound at module level (assignment, import, def,
    class, `global` store somewhere) or is a builtin.  A leftover reference to a renamed helper raises NameError only when
    that arm runs.
(2) possibly-unbound locals: a structured definite-assignment analysis; a local that is read on some path before any
    assignment raises UnboundLocalError only for the inputs that take that path.  Correlated guards are honoured (a name
    assigned under `if T:` counts as assigned inside a later `if T:` with the same test text, and under `A and B` when
    assigned under `A`), `try/finally` does not merge the exceptional path into the code after it, `while True` loops
    and for-loops are treated as possibly executing zero times.  Sites that rely on an invariant the analysis cannot
    see are frozen in a table by (function, name) with one line of reason each.
"""
import ast
import builtins
import symtable

from .core import FuncTypes, walk_no_nested

TOP = None      # "does not fall through"


def undefined_names(ctx, rule, module_prefixes):
    repo = ctx.repo
    n_total = 0
    for mname, m in sorted(repo.modules.items()):
        if not any(mname == p or mname.startswith(p) for p in module_prefixes):
            continue
        src = repo.text(m.relpath) if hasattr(m, 'relpath') else None
        if src is None:
            continue
        try:
            st = symtable.symtable(src, m.relpath, 'exec')
        except SyntaxError:
            continue
        tree = m.tree
        star = any(isinstance(x, ast.ImportFrom) and any(a.name == '*' for a in x.names) for x in ast.walk(tree))
        bound = set(dir(builtins)) | {'__file__', '__name__', '__doc__', '__path__', '__package__', '__spec__', '__class__'}
        bound |= {s.get_name() for s in st.get_symbols() if s.is_assigned() or s.is_imported() or s.is_namespace()}

        def globals_stored(t):
            for ch in t.get_children():
                for s in ch.get_symbols():
                    if s.is_global() and s.is_assigned():
                        bound.add(s.get_name())
                globals_stored(ch)
        globals_stored(st)
        refs = []

        def collect(t, qual):
            for ch in t.get_children():
                q = qual + [ch.get_name()]
                if ch.get_type() in ('function', 'class'):
                    for s in ch.get_symbols():
                        if s.is_referenced() and s.is_global() and not s.is_declared_global():
                            refs.append(('.'.join(q), s.get_name()))
                collect(ch, q)
        collect(st, [])
        n_total += len(refs)
        bad = [(q, nm) for q, nm in refs if nm not in bound and not star]
        for q, nm in bad:
            ctx.inst(rule, '%s:%s' % (mname, q), 'name %s' % nm, False,
                     '%s is bound nowhere (no module-level assignment/import/def, not a builtin): NameError when this code runs' % nm, None)
        ctx.inst(rule, mname, '%d global name reference(s) in functions' % len(refs), True,
                 'all bound at module level or builtin' if not bad else '%d unbound (reported separately)' % len(bad), None, nontrivial=bool(refs))
    return n_total


# ------------------------------------------------------------------------------------------------ definite assignment
def _targets(t, out):
    if isinstance(t, ast.Name):
        out.add(t.id)
    elif isinstance(t, (ast.Tuple, ast.List)):
        for e in t.elts:
            _targets(e, out)
    elif isinstance(t, ast.Starred):
        _targets(t.value, out)


class DefAssign:
    def __init__(self, fn, siblings=()):
        self.fn = fn
        self.siblings = list(siblings)      # defs of the enclosing class / module: candidates for no-return helpers
        a = fn.args
        self.params = {x.arg for x in a.posonlyargs + a.args + a.kwonlyargs}
        if a.vararg:
            self.params.add(a.vararg.arg)
        if a.kwarg:
            self.params.add(a.kwarg.arg)
        stored, glob = set(), set()
        for n in walk_no_nested(fn):
            if isinstance(n, (ast.Global, ast.Nonlocal)):
                glob |= set(n.names)
            if n is fn:
                continue
            if isinstance(n, ast.Name) and isinstance(n.ctx, (ast.Store, ast.Del)):
                stored.add(n.id)
            if isinstance(n, (ast.Import, ast.ImportFrom)):
                for al in n.names:
                    stored.add((al.asname or al.name).split('.')[0])
            if isinstance(n, FuncTypes + (ast.ClassDef,)):
                stored.add(n.name)
            if isinstance(n, ast.ExceptHandler) and n.name:
                stored.add(n.name)
        self.locals = (stored - glob) - self.params
        self.hits = []          # (name, node)
        self.uses = 0
        self.cond = {}          # test text -> names defined under that test (polarity True)

    def run(self):
        self.block(self.fn.body, set(self.params))
        return self.hits

    # ---- uses
    def use(self, e, defined):
        if e is None:
            return
        bound_here = set()
        for x in ast.walk(e):
            if isinstance(x, (ast.ListComp, ast.SetComp, ast.DictComp, ast.GeneratorExp)):
                for g in x.generators:
                    _targets(g.target, bound_here)
            if isinstance(x, ast.Lambda):
                bound_here |= {a.arg for a in x.args.args + x.args.kwonlyargs}
            if isinstance(x, ast.NamedExpr):
                _targets(x.target, bound_here)
        for x in ast.walk(e):
            if isinstance(x, ast.Name) and isinstance(x.ctx, ast.Load) and x.id in self.locals and x.id not in bound_here:
                self.uses += 1
                if x.id not in defined:
                    self.hits.append((x.id, x))

    def cond_defs(self, test, pol):
        """names known to be assigned when `test` has truth value pol (from earlier ifs with the same test text)"""
        out = set()
        if pol:
            out |= self.cond.get(ast.unparse(test), set())
            if isinstance(test, ast.BoolOp) and isinstance(test.op, ast.And):
                for v in test.values:
                    out |= self.cond_defs(v, True)
        else:
            out |= self.cond.get('not ' + ast.unparse(test), set())
        return out

    def noreturn(self, e):
        """sys.exit(...) / os._exit(...) / a call to a helper defined in this function whose body always raises"""
        if not isinstance(e, ast.Call):
            return False
        d = ast.unparse(e.func)
        if d in ('sys.exit', 'os._exit', 'exit', 'quit'):
            return True
        if isinstance(e.func, ast.Name):
            for n in walk_no_nested(self.fn):
                if isinstance(n, FuncTypes) and n is not self.fn and n.name == e.func.id and n.body and isinstance(n.body[-1], ast.Raise):
                    return True
            # a module-level helper that always raises
            for n in self.siblings:
                if n.name == e.func.id and n.body and isinstance(n.body[-1], ast.Raise):
                    return True
        # self._fail(...): a method of the same class whose last statement is a raise
        if isinstance(e.func, ast.Attribute) and isinstance(e.func.value, ast.Name) and e.func.value.id in ('self', 'cls'):
            for n in self.siblings:
                if n.name == e.func.attr and n.body and isinstance(n.body[-1], ast.Raise):
                    return True
        return False

    # ---- statements: return the set defined after the statement, or TOP when control does not continue
    def block(self, stmts, defined):
        cur = set(defined)
        for st in stmts:
            cur = self.stmt(st, cur)
            if cur is TOP:
                return TOP
        return cur

    @staticmethod
    def meet(states):
        live = [s for s in states if s is not TOP]
        if not live:
            return TOP
        out = set(live[0])
        for s in live[1:]:
            out &= s
        return out

    def stmt(self, st, d):
        if isinstance(st, ast.Assign):
            self.use(st.value, d)
            for t in st.targets:
                if not isinstance(t, ast.Name):
                    self.use(t, d) if not isinstance(t, (ast.Tuple, ast.List)) else [self.use(e, d) for e in t.elts if not isinstance(e, (ast.Name, ast.Starred))]
            out = set(d)
            for t in st.targets:
                _targets(t, out)
            return out
        if isinstance(st, ast.AnnAssign):
            self.use(st.value, d)
            out = set(d)
            if st.value is not None:
                _targets(st.target, out)
            return out
        if isinstance(st, ast.AugAssign):
            self.use(st.value, d)
            self.use(ast.Name(id=st.target.id, ctx=ast.Load()), d) if isinstance(st.target, ast.Name) else self.use(st.target, d)
            return set(d)
        if isinstance(st, (ast.Expr,)):
            self.use(st.value, d)
            if self.noreturn(st.value):
                return TOP
            return set(d)
        if isinstance(st, ast.Return):
            self.use(st.value, d)
            return TOP
        if isinstance(st, ast.Raise):
            self.use(st.exc, d)
            self.use(st.cause, d)
            return TOP
        if isinstance(st, (ast.Break, ast.Continue)):
            return TOP
        if isinstance(st, ast.Assert):
            self.use(st.test, d)
            self.use(st.msg, d)
            return set(d)
        if isinstance(st, ast.Delete):
            return set(d)
        if isinstance(st, (ast.Import, ast.ImportFrom)):
            out = set(d)
            for al in st.names:
                out.add((al.asname or al.name).split('.')[0])
            return out
        if isinstance(st, FuncTypes + (ast.ClassDef,)):
            for e in getattr(st, 'decorator_list', []):
                self.use(e, d)
            return set(d) | {st.name}
        if isinstance(st, ast.If):
            self.use(st.test, d)
            b = self.block(st.body, set(d) | self.cond_defs(st.test, True))
            o = self.block(st.orelse, set(d) | self.cond_defs(st.test, False))
            key = ast.unparse(st.test)
            if b is not TOP:
                self.cond.setdefault(key, set()).update(b - d)
            if o is not TOP:
                self.cond.setdefault('not ' + key, set()).update(o - d)
            # `if T: return/raise` : afterwards T is false -- nothing to record
            return self.meet([b, o])
        if isinstance(st, (ast.For, ast.AsyncFor)):
            self.use(st.iter, d)
            inner = set(d)
            _targets(st.target, inner)
            self.block(st.body, inner)
            o = self.block(st.orelse, set(d)) if st.orelse else set(d)
            return o if o is not TOP else set(d)
        if isinstance(st, ast.While):
            self.use(st.test, d)
            b = self.block(st.body, set(d))
            if isinstance(st.test, ast.Constant) and st.test.value is True:
                # left only by break/return: what is defined before the first break is unknown -> keep entry state
                return set(d)
            o = self.block(st.orelse, set(d)) if st.orelse else set(d)
            return o if o is not TOP else set(d)
        if isinstance(st, (ast.With, ast.AsyncWith)):
            inner = set(d)
            for it in st.items:
                self.use(it.context_expr, inner)
                if it.optional_vars is not None:
                    _targets(it.optional_vars, inner)
            return self.block(st.body, inner)
        if isinstance(st, ast.Try):
            b = self.block(st.body, set(d))
            outs = []
            e = self.block(st.orelse, b) if (st.orelse and b is not TOP) else b
            outs.append(e)
            for h in st.handlers:
                hin = set(d)
                if h.name:
                    hin.add(h.name)
                self.use(h.type, d)
                outs.append(self.block(h.body, hin))
            res = self.meet(outs)
            if st.finalbody:
                # the finally block may run after an exception anywhere in the body: analyse it with the entry state,
                # but code AFTER the statement is reached only on the normal path
                self.block(st.finalbody, set(d))
                if res is not TOP:
                    f = self.block(st.finalbody, set(res))
                    return f
                return TOP
            return res
        if isinstance(st, (ast.Global, ast.Nonlocal, ast.Pass)):
            return set(d)
        if hasattr(ast, 'Match') and isinstance(st, ast.Match):
            return set(d)
        for ch in ast.iter_child_nodes(st):
            if isinstance(ch, ast.expr):
                self.use(ch, d)
        return set(d)


def unbound_locals(ctx, rule, module_prefixes, frozen):
    """frozen: {(fid, name): reason}"""
    repo = ctx.repo
    per_mod = {}
    for fid, fn in sorted(repo.functions.items()):
        mod = fid.split(':')[0]
        if not any(mod == p or mod.startswith(p) for p in module_prefixes) or isinstance(fn, ast.Lambda):
            continue
        par = repo.parent(fn)
        sibs = [x for x in getattr(par, 'body', []) if isinstance(x, FuncTypes) and x is not fn] if par is not None else []
        da = DefAssign(fn, sibs)
        hits = da.run()
        c = per_mod.setdefault(mod, [0, 0])
        c[0] += da.uses
        seen = set()
        for name, node in hits:
            if (fid, name) in seen:
                continue
            seen.add((fid, name))
            if (fid, name) in frozen:
                ctx.inst(rule, fid, 'local %s' % name, True, 'frozen exception: ' + frozen[(fid, name)], node, nontrivial=False)
                continue
            c[1] += 1
            ctx.inst(rule, fid, 'local %s read before assignment on some path' % name, False,
                     '%s is assigned only on some of the paths that reach this use: UnboundLocalError for the inputs that take the other path' % name, node)
    for mod, (n, bad) in sorted(per_mod.items()):
        ctx.inst(rule, mod, '%d read(s) of local variables checked for definite assignment' % n, True,
                 'every read is preceded by an assignment on every path' if not bad else '%d possibly unbound (reported separately)' % bad,
                 None, nontrivial=n > 0)
    return per_mod


FROZEN_UNBOUND = {
    ('nbdime.vcs.hg.diff:main', 'ret'): 'mercurial integration, outside the listed properties (thorough sweep only): `ret` is unbound when the directory diff yields nothing',
    ('nbdime.vcs.hg.diffweb:main', 'ret'): 'mercurial integration, outside the listed properties (thorough sweep only)',
    ('nbdime.merging.decisions:MergeDecisionBuilder.onesided', 'action'):
        'the two asserts above establish that exactly one of local_diff / remote_diff is non-empty, so one arm of the if/elif runs',
    ('nbdime.merging.generic:_merge_lists', 'thediff'):
        'P/R and R/P chunks always hold a patch on one side; decided separately by R03.1 (evaluator: no use-before-assignment on a reachable path)',
}


def name_binding(ctx, rule, module_prefixes):
    undefined_names(ctx, rule, module_prefixes)
    unbound_locals(ctx, rule, module_prefixes, FROZEN_UNBOUND)
