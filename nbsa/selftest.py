"""Rule-sensitivity self-test: mutants must fire (naming the rule), benign twins must stay silent.

A variant is a textual rewrite (old -> new, `old` must occur exactly `count` times) of one file of
the *current* tree, applied to a scratch copy of the analysed files under tempfile.mkdtemp()
(outside /repo and /verif, removed immediately).  Python variants must still compile.

  mutant fires      : the property's rules report >= 1 finding that is not in known_findings.json,
                      from the expected rule (and, if given, mentioning `expect_where`)
  twin stays silent : no finding outside known_findings.json and no analysis error

A variant whose `old` text no longer exists is *inapplicable* (listed, not an error; the instance
floors protect against vacuity).  An applicable mutant that does not fire, or a twin that fires, is
a checker defect -> AnalysisError (exit 2), never a VIOLATION.
"""
import importlib
import os
import shutil
import tempfile
from concurrent.futures import ProcessPoolExecutor

from .core import AnalysisError
from .report import Ctx, load_known, match_known

COPY_DIRS = ['nbdime', 'docs/source', 'packages/nbdime/src']
COPY_FILES = ['pyproject.toml']
SKIP_DIRS = {'tests', '__pycache__', 'node_modules', 'static', 'templates', 'labextension', 'notebook_ext',
             'testnotebooks', 'widget', 'model', 'styles', 'upstreaming'}
KEEP_EXT = {'.py', '.json', '.rst', '.ts', '.toml'}


def make_scratch(root):
    td = tempfile.mkdtemp(prefix='nbsa-selftest-')
    for d in COPY_DIRS:
        src = os.path.join(root, d)
        if not os.path.isdir(src):
            continue
        for dirpath, dirnames, filenames in os.walk(src):
            dirnames[:] = [x for x in dirnames if x not in SKIP_DIRS]
            rel = os.path.relpath(dirpath, root)
            os.makedirs(os.path.join(td, rel), exist_ok=True)
            for fn in filenames:
                if os.path.splitext(fn)[1] in KEEP_EXT:
                    shutil.copy2(os.path.join(dirpath, fn), os.path.join(td, rel, fn))
    for f in COPY_FILES:
        if os.path.exists(os.path.join(root, f)):
            shutil.copy2(os.path.join(root, f), os.path.join(td, f))
    return td


class Variant:
    def __init__(self, prop, name, kind, file, old, new, rule=None, where=None, count=1, edits=None):
        self.prop, self.name, self.kind, self.file = prop, name, kind, file
        self.old, self.new, self.rule, self.where, self.count = old, new, rule, where, count
        self.edits = edits or []       # further (file, old, new) edits (two cooperating sites)


def _apply(root, td, file, old, new, count):
    p = os.path.join(td, file)
    if not os.path.exists(p):
        return 'file missing'
    with open(p, encoding='utf8') as f:
        src = f.read()
    if src.count(old) != count:
        return 'anchor text occurs %d times (expected %d)' % (src.count(old), count)
    src2 = src.replace(old, new)
    if file.endswith('.py'):
        try:
            compile(src2, file, 'exec')
        except SyntaxError as e:
            return 'variant does not compile: %s' % e
    with open(p, 'w', encoding='utf8') as f:
        f.write(src2)
    return None


def run_variant(args):
    root, v = args
    td = make_scratch(root)
    try:
        err = _apply(root, td, v.file, v.old, v.new, v.count)
        for (f2, o2, n2) in v.edits:
            err = err or _apply(root, td, f2, o2, n2, 1)
        if err:
            return (v.prop, v.name, v.kind, 'inapplicable', err)
        mod = importlib.import_module('nbsa.rules.' + v.prop.lower())
        ctx = Ctx(td, v.prop, 'quick')
        try:
            mod.run(ctx)
            ctx.check_floors()
        except AnalysisError as e:
            if v.kind == 'mutant' and v.rule == 'ANALYSIS-ERROR':
                return (v.prop, v.name, v.kind, 'ok', 'analysis error as expected: %s' % e)
            return (v.prop, v.name, v.kind, 'FAIL', 'analysis error: %s' % e)
        except Exception as e:   # a crash of the analyser on a variant is a checker defect
            import traceback
            return (v.prop, v.name, v.kind, 'FAIL', 'analyser crashed: %s' % traceback.format_exc()[-300:])
        known = load_known(v.prop)
        new = [f for f in ctx.findings if not match_known(f, known)]
        if v.kind == 'mutant':
            hits = [f for f in new if (v.rule is None or f['rule'] == v.rule) and
                    (v.where is None or v.where in f['where'] or v.where in f['construct'])]
            if hits:
                return (v.prop, v.name, v.kind, 'ok', '%s %s :: %s' % (hits[0]['rule'], hits[0]['where'], hits[0]['construct'][:80]))
            return (v.prop, v.name, v.kind, 'FAIL', 'mutant not detected by %s (new findings: %s)' % (
                v.rule, [(f['rule'], f['where']) for f in new][:4]))
        else:
            if new:
                return (v.prop, v.name, v.kind, 'FAIL', 'twin raised %s' % [(f['rule'], f['where'], f['construct'][:60]) for f in new][:3])
            return (v.prop, v.name, v.kind, 'ok', 'silent')
    finally:
        shutil.rmtree(td, ignore_errors=True)


def variants_for(prop):
    from .variants import VARIANTS
    return [v for v in VARIANTS if v.prop == prop]


def run_selftest(prop, root, jobs=None):
    vs = variants_for(prop)
    if not vs:
        return {'variants': 0, 'mutants_fired': 0, 'twins_silent': 0, 'inapplicable': []}
    jobs = jobs or min(16, os.cpu_count() or 4, len(vs))
    with ProcessPoolExecutor(max_workers=jobs) as ex:
        results = list(ex.map(run_variant, [(root, v) for v in vs]))
    fails = [r for r in results if r[3] == 'FAIL']
    for r in results:
        print('  selftest %-6s %-44s %-12s %s' % (r[2], r[1], r[3], r[4][:110]))
    if fails:
        raise AnalysisError('selftest: %d variant(s) misjudged: %s' % (
            len(fails), '; '.join('%s (%s)' % (r[1], r[4][:80]) for r in fails)))
    return {
        'variants': len(results),
        'mutants_fired': sum(1 for r in results if r[2] == 'mutant' and r[3] == 'ok'),
        'twins_silent': sum(1 for r in results if r[2] == 'twin' and r[3] == 'ok'),
        'inapplicable': ['%s: %s' % (r[1], r[4]) for r in results if r[3] == 'inapplicable'],
        'details': [{'name': r[1], 'kind': r[2], 'result': r[3], 'detail': r[4][:160]} for r in results],
    }


if __name__ == '__main__':
    import sys
    props = sys.argv[1:] or ['C%02d' % i for i in range(1, 21)]
    rc = 0
    for p in props:
        try:
            st = run_selftest(p, os.environ.get('NBSA_ROOT', '/repo'))
            print('%s: %d variants, %d mutants fired, %d twins silent, %d inapplicable' % (
                p, st['variants'], st['mutants_fired'], st['twins_silent'], len(st['inapplicable'])))
        except AnalysisError as e:
            print('ANALYSIS-ERROR: %s' % e)
            rc = 2
    sys.exit(rc)
