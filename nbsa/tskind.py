"""Finite-domain evaluation of TypeScript type-dispatch chains over the six JSON kinds.

A hand-duplicated helper such as ``makeClearedValue`` (TS) / ``make_cleared_value`` (Python) is a function from
the *kind* of a JSON value to the kind of its result.  Both sides are if/else-if chains whose tests only ask for
the kind of one parameter, so each can be evaluated exhaustively over {null, boolean, number, string, array,
object} with the typing rules of its language (JavaScript: ``typeof null === 'object'``, ``typeof [] ===
'object'``; Python: ``isinstance(True, int)``).  Nothing is executed: the token stream of the TS function and the
AST of the Python function are interpreted by the small evaluators below; an idiom they do not know raises
AnalysisError (exit 2), never a verdict.
"""
import ast

from .core import AnalysisError

JSON_KINDS = ['null', 'boolean', 'number', 'string', 'array', 'object']
JS_TYPEOF = {'null': 'object', 'boolean': 'boolean', 'number': 'number', 'string': 'string', 'array': 'object', 'object': 'object'}


# ---------------------------------------------------------------------------------------------- TypeScript side
class _P:
    def __init__(self, toks, param, kind, where):
        self.t, self.i, self.param, self.kind, self.where = toks, 0, param, kind, where

    def peek(self, k=0):
        return self.t[self.i + k] if self.i + k < len(self.t) else None

    def eat(self, text=None):
        tok = self.peek()
        if tok is None or (text is not None and tok.text != text):
            raise AnalysisError('%s: unsupported condition syntax near %r (expected %r)' % (self.where, tok.text if tok else '<end>', text))
        self.i += 1
        return tok

    def p_or(self):
        v = self.p_and()
        while self.peek() is not None and self.peek().text == '||':
            self.eat()
            r = self.p_and()
            v = v or r
        return v

    def p_and(self):
        v = self.p_not()
        while self.peek() is not None and self.peek().text == '&&':
            self.eat()
            r = self.p_not()
            v = v and r
        return v

    def p_not(self):
        if self.peek() is not None and self.peek().text == '!':
            self.eat()
            return not self.p_not()
        return self.p_cmp()

    def p_cmp(self):
        a = self.p_atom()
        tok = self.peek()
        if tok is not None and tok.text in ('===', '!==', '==', '!='):
            op = self.eat().text
            b = self.p_atom()
            loose = op in ('==', '!=')
            eq = self._equal(a, b, loose)
            return eq if op in ('===', '==') else not eq
        if tok is not None and tok.kind == 'id' and tok.text == 'instanceof':
            self.eat()
            cls = self.eat().text
            if a != ('value',):
                raise AnalysisError('%s: instanceof on something other than the parameter' % self.where)
            if cls == 'Array':
                return self.kind == 'array'
            if cls == 'Object':
                return self.kind in ('array', 'object')
            raise AnalysisError('%s: instanceof %s not modelled' % (self.where, cls))
        if isinstance(a, bool):
            return a
        if a == ('value',):
            raise AnalysisError('%s: truthiness of the parameter depends on its content, not its kind' % self.where)
        raise AnalysisError('%s: condition atom %r is not a boolean' % (self.where, a))

    def _equal(self, a, b, loose):
        def val(x):
            if x == ('value',):
                return ('kind', self.kind)
            return x
        a, b = val(a), val(b)
        for x, y in ((a, b), (b, a)):
            if x == ('null',) and y[0] == 'kind':
                return y[1] == 'null'
            if x == ('undefined',) and y[0] == 'kind':
                return loose and y[1] == 'null'
        if a[0] == 'str' and b[0] == 'str':
            return a[1] == b[1]
        raise AnalysisError('%s: comparison of %r with %r not modelled' % (self.where, a, b))

    def p_atom(self):
        tok = self.eat()
        if tok.text == '(':
            v = self.p_or()
            self.eat(')')
            return v
        if tok.kind == 'str':
            return ('str', tok.value)
        if tok.kind == 'id' and tok.text == 'typeof':
            nxt = self.eat()
            if nxt.text == '(':
                nxt = self.eat()
                self.eat(')')
            if nxt.text != self.param:
                raise AnalysisError('%s: typeof of something other than the parameter' % self.where)
            return ('str', JS_TYPEOF[self.kind])
        if tok.kind == 'id' and tok.text == 'null':
            return ('null',)
        if tok.kind == 'id' and tok.text == 'undefined':
            return ('undefined',)
        if tok.kind == 'id' and tok.text == self.param:
            return ('value',)
        if tok.kind == 'id' and tok.text == 'Array' and self.peek() is not None and self.peek().text == '.':
            self.eat('.')
            m = self.eat().text
            if m != 'isArray':
                raise AnalysisError('%s: Array.%s not modelled' % (self.where, m))
            self.eat('(')
            arg = self.eat()
            self.eat(')')
            if arg.text != self.param:
                raise AnalysisError('%s: Array.isArray of something other than the parameter' % self.where)
            return self.kind == 'array'
        if tok.kind == 'id' and tok.text == 'valueIn':
            self.eat('(')
            a = self.p_atom()
            self.eat(',')
            self.eat('[')
            vals = []
            while self.peek().text != ']':
                v = self.eat()
                if v.kind == 'str':
                    vals.append(v.value)
                elif v.text != ',':
                    raise AnalysisError('%s: valueIn over non-literal array' % self.where)
            self.eat(']')
            self.eat(')')
            if a[0] != 'str':
                raise AnalysisError('%s: valueIn of a non-string' % self.where)
            return a[1] in vals
        if tok.kind == 'id' and tok.text in ('true', 'false'):
            return tok.text == 'true'
        raise AnalysisError('%s: condition token %r not modelled' % (self.where, tok.text))


def _result_kind(toks, where):
    txt = ''.join(t.text if t.kind != 'str' else repr(t.value) for t in toks)
    if txt == '[]':
        return 'array'
    if txt == '{}':
        return 'object'
    if txt == 'null':
        return 'null'
    if len(toks) == 1 and toks[0].kind == 'str':
        return 'string' if toks[0].value == '' else 'string:%r' % toks[0].value
    if txt in ('0',):
        return 'number'
    if txt in ('true', 'false'):
        return 'boolean'
    raise AnalysisError('%s: returned expression %s not modelled' % (where, txt))


def _group(toks, i, open_, close):
    depth = 0
    for j in range(i, len(toks)):
        if toks[j].kind == 'punct' and toks[j].text == open_:
            depth += 1
        elif toks[j].kind == 'punct' and toks[j].text == close:
            depth -= 1
            if depth == 0:
                return j
    raise AnalysisError('unbalanced %s%s' % (open_, close))


def ts_chain(body, where):
    """body = tokens of `{ if (c) { return X; } else if (c2) {...} else {...} }` (or trailing `return X;`).
    returns [(cond_tokens | None, return_tokens, line)]"""
    toks = body[1:-1]
    arms = []
    i = 0
    while i < len(toks):
        t = toks[i]
        if t.kind == 'id' and t.text == 'if':
            j = _group(toks, i + 1, '(', ')')
            cond = toks[i + 2:j]
            if toks[j + 1].text != '{':
                raise AnalysisError('%s: if without a block' % where)
            k = _group(toks, j + 1, '{', '}')
            blk = toks[j + 2:k]
            arms.append((cond, _ret(blk, where), t.line))
            i = k + 1
            if i < len(toks) and toks[i].kind == 'id' and toks[i].text == 'else':
                i += 1
                if toks[i].kind == 'id' and toks[i].text == 'if':
                    continue
                k = _group(toks, i, '{', '}')
                arms.append((None, _ret(toks[i + 1:k], where), toks[i].line))
                i = k + 1
            continue
        if t.kind == 'id' and t.text == 'return':
            arms.append((None, _ret(toks[i:], where), t.line))
            break
        raise AnalysisError('%s: statement starting with %r not modelled' % (where, t.text))
    return arms


def _ret(blk, where):
    if not blk or not (blk[0].kind == 'id' and blk[0].text == 'return'):
        raise AnalysisError('%s: arm does not consist of a single return' % where)
    end = next((j for j, t in enumerate(blk) if t.text == ';'), len(blk))
    return blk[1:end]


def ts_kind_function(tsfile, name, param):
    """kind -> result kind for the TS function `name(param)`; also returns the arm taken per kind."""
    where = '%s:%s' % (tsfile.relpath, name)
    arms = ts_chain(tsfile.function_body(name), where)
    table = {}
    for kind in JSON_KINDS:
        for n, (cond, ret, line) in enumerate(arms):
            if cond is None or _P(cond, param, kind, where).p_or_all():
                table[kind] = (_result_kind(ret, where), n, line)
                break
        else:
            table[kind] = ('undefined', None, None)
    return table, arms


def _p_or_all(self):
    v = self.p_or()
    if self.peek() is not None:
        raise AnalysisError('%s: trailing tokens in condition near %r' % (self.where, self.peek().text))
    return v


_P.p_or_all = _p_or_all

# ---------------------------------------------------------------------------------------------- Python side
PY_REPR = {'null': [None], 'boolean': [True], 'number': [1, 1.5], 'string': ['s'], 'array': [[]], 'object': [{}]}
PY_TYPES = {'list': list, 'dict': dict, 'str': str, 'int': int, 'float': float, 'bool': bool, 'tuple': tuple,
            'type(None)': type(None)}


def _py_test(e, param, value, where):
    if isinstance(e, ast.Call) and isinstance(e.func, ast.Name) and e.func.id == 'isinstance' and len(e.args) == 2 and \
            isinstance(e.args[0], ast.Name) and e.args[0].id == param:
        t = e.args[1]
        names = [ast.unparse(x) for x in (t.elts if isinstance(t, ast.Tuple) else [t])]
        types = []
        for n in names:
            if n not in PY_TYPES:
                raise AnalysisError('%s: isinstance against %s not modelled' % (where, n))
            types.append(PY_TYPES[n])
        return isinstance(value, tuple(types))
    if isinstance(e, ast.Compare) and len(e.ops) == 1 and isinstance(e.left, ast.Name) and e.left.id == param and \
            isinstance(e.comparators[0], ast.Constant) and e.comparators[0].value is None:
        if isinstance(e.ops[0], (ast.Is, ast.Eq)):
            return value is None
        if isinstance(e.ops[0], (ast.IsNot, ast.NotEq)):
            return value is not None
    if isinstance(e, ast.BoolOp):
        vals = [_py_test(v, param, value, where) for v in e.values]
        return all(vals) if isinstance(e.op, ast.And) else any(vals)
    if isinstance(e, ast.UnaryOp) and isinstance(e.op, ast.Not):
        return not _py_test(e.operand, param, value, where)
    raise AnalysisError('%s: test `%s` not modelled' % (where, ast.unparse(e)))


def _py_result(e, where):
    if isinstance(e, ast.List) and not e.elts:
        return 'array'
    if isinstance(e, ast.Dict) and not e.keys:
        return 'object'
    if isinstance(e, ast.Constant):
        if e.value is None:
            return 'null'
        if e.value == '' and isinstance(e.value, str):
            return 'string'
    raise AnalysisError('%s: returned expression `%s` not modelled' % (where, ast.unparse(e)))


def py_kind_function(fn, where):
    from .util import if_chain
    param = fn.args.args[0].arg
    body = [s for s in fn.body if not (isinstance(s, ast.Expr) and isinstance(s.value, ast.Constant))]
    arms = []
    for st in body:
        if isinstance(st, ast.If):
            ch, els = if_chain(st)
            for test, b, nd in ch:
                arms.append((test, b))
            if els:
                arms.append((None, els))
        elif isinstance(st, ast.Return):
            arms.append((None, [st]))
        else:
            raise AnalysisError('%s: statement `%s` not modelled' % (where, ast.unparse(st)[:40]))
    table = {}
    for kind, reps in PY_REPR.items():
        res = set()
        for v in reps:
            for test, b in arms:
                if test is None or _py_test(test, param, v, where):
                    if len(b) != 1 or not isinstance(b[0], ast.Return):
                        raise AnalysisError('%s: arm is not a single return' % where)
                    res.add(_py_result(b[0].value, where) if b[0].value is not None else 'null')
                    break
            else:
                res.add('null')     # falls off the end: returns None
        table[kind] = sorted(res)
    return table
