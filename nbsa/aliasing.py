"""Intra-procedural alias tracking + interprocedural summaries for in-place mutation (C13).

Abstract value of a variable: set of (root parameter, depth)
    depth 0   ('ref')     the very object the parameter denotes, or an object reachable from it
    depth n>0 ('shallow') a container created here; n levels of fresh containers lie above such objects
Fresh objects (deepcopy, literals of scalars, strings, results of unknown calls) have the empty set.

Forward pass over the statements in program order (strong update on simple names; branches
are analysed separately and merged by union; loop bodies twice).  Heap flow (a reference stored
into an attribute/container and read back elsewhere) is NOT followed, except that a local
container that absorbed references becomes 'shallow' over their roots.

Summaries (fixpoint over the package):
    mutates[(fid, param)]  -> witness      in-place mutation of an object reachable from param
    returns[(fid, param)]  -> 'ref'|'shallow'   the return value is / holds such an object
"""
import ast

from .core import FuncTypes, dotted, walk_no_nested
from .facts import MUTATORS

# functions of nbformat / the standard library that modify their FIRST argument in place (and, for the nbformat ones, return it)
EXTERNAL_INPLACE = {'rejoin_lines', 'split_lines', 'strip_transient', '_rejoin_mimebundle', '_split_mimebundle', 'upgrade', 'downgrade',
                    'shuffle', 'heapify', 'heappush', 'heappop', 'insort', 'insort_left', 'insort_right', 'setitem', 'delitem', 'setattr', 'delattr'}

DIFFDATA = '<diff-data>'
FRESH_DEEP = {'copy.deepcopy', 'deepcopy', 'json.loads', 'json.dumps', 'str', 'repr', 'len', 'int', 'float', 'bool',
              'isinstance', 'type', 'id', 'hash', 'max', 'min', 'sum', 'any', 'all', 'range', 'enumerate_index', 'print',
              'nbformat.from_dict', 'from_dict'}
SHALLOW_COPY = {'copy.copy', 'list', 'dict', 'tuple', 'set', 'sorted', 'reversed', 'frozenset', 'iter', 'enumerate', 'zip',
                'chain', 'itertools.chain', 'filter', 'map'}
SHALLOW_METHODS = {'copy', 'items', 'values', 'keys'}
REF_METHODS = {'get', 'pop', 'setdefault', '__getitem__', 'popitem'}
ABSORB_METHODS = {'append', 'extend', 'insert', 'add', 'update', 'setdefault', 'appendleft', 'addrange', 'replace', 'patch',
                  'removerange', 'remove_', 'write'}
STRING_METHODS = {'join', 'format', 'splitlines', 'split', 'strip', 'lower', 'upper', 'startswith', 'endswith', 'replace_',
                  'encode', 'decode', 'rstrip', 'lstrip', 'match', 'search'}


LIST_FIELDS = {'valuelist', 'cells', 'outputs', 'decisions', 'diff', 'local_diff', 'remote_diff', 'custom_diff'}     # always lists (diff format / nbformat schema)


class Summaries:
    def __init__(self, repo, cg, module_filter=None, exempt=None, scalar_fields=(), input_fields=()):
        self.repo = repo
        self.cg = cg
        self.exempt = dict(exempt or {})        # (fid, param) -> reason : summary suppressed (named exemption)
        self.scalar_fields = set(scalar_fields)  # attribute names that hold immutable scalars by schema
        self.input_fields = set(input_fields)    # attribute names whose content is input data wherever it is found
        self.mutates = {}       # (fid, param) -> witness dict
        self.returns = {}       # (fid, param) -> kind
        self.absorbs = {}       # (fid, param) -> True : param is stored into `self` (first param) by the callee
        self.sites = {}         # fid -> FnAlias (last run)
        self.arg_fresh = {}     # (fid, param) -> True when EVERY call site in the package passes a fresh object (private functions only)
        self._obs = {}
        self.fids = [f for f in repo.functions if module_filter is None or module_filter(f)]
        self._fix()

    def _fix(self):
        for it in range(8):
            changed = False
            self._obs = {}
            for fid in self.fids:
                fa = FnAlias(self, fid)
                fa.run()
                self.sites[fid] = fa
                for p, w in fa.mutated.items():
                    if (fid, p) in self.exempt:
                        continue
                    if (fid, p) not in self.mutates:
                        self.mutates[(fid, p)] = w
                        changed = True
                    elif w.get('deep') and not self.mutates[(fid, p)].get('deep'):
                        self.mutates[(fid, p)]['deep'] = True
                        changed = True
                for p, k in fa.returned.items():
                    old = self.returns.get((fid, p))
                    new = k if old is None else min(old, k)
                    if old != new:
                        self.returns[(fid, p)] = new
                        changed = True
                for p in fa.absorbed:
                    if (fid, p) not in self.absorbs:
                        self.absorbs[(fid, p)] = True
                        changed = True
            fresh = {k: v for k, v in self._obs.items() if v and k[0].split(':')[-1].split('.')[-1].startswith('_')}
            if fresh != self.arg_fresh:
                self.arg_fresh = fresh
                changed = True
            if not changed:
                break

    def witness_chain(self, fid, param, limit=8):
        """[(fid, node, text)] from the API function down to the mutating statement."""
        out = []
        seen = set()
        while (fid, param) in self.mutates and (fid, param) not in seen and len(out) < limit:
            seen.add((fid, param))
            w = self.mutates[(fid, param)]
            out.append((fid, w['node'], w['what']))
            if w.get('via'):
                fid, param = w['via']
            else:
                break
        return out


def _is_access_path(e):
    """Name / attribute / subscript (incl. slice) / + of such: an expression denoting (part of) an existing object."""
    if isinstance(e, ast.Name):
        return True
    if isinstance(e, (ast.Attribute, ast.Subscript)):
        return _is_access_path(e.value)
    if isinstance(e, ast.BinOp) and isinstance(e.op, ast.Add):
        return _is_access_path(e.left) or _is_access_path(e.right)
    if isinstance(e, ast.Starred):
        return _is_access_path(e.value)
    return False


class FnAlias:
    def __init__(self, summ, fid):
        self.s = summ
        self.repo = summ.repo
        self.cg = summ.cg
        self.fid = fid
        self.fn = summ.repo.functions[fid]
        a = self.fn.args
        self.params = [x.arg for x in a.posonlyargs + a.args + a.kwonlyargs]   # **kwargs is a fresh container
        if a.vararg is not None:
            # *args: a fresh tuple, but its ELEMENTS are the caller's objects -- tracked as a parameter whose deep mutations
            # are charged to the surplus positional arguments of each call (bind_args)
            self.params.append(a.vararg.arg)
        self.mutated = {}       # param -> witness
        self.returned = {}      # param -> kind
        self.absorbed = set()   # params stored into self
        self.escapes = []       # (node, root, description)  reference stored into a fresh local container
        self.paired = []        # (pop node, store node, var, key)
        self.mut_sites = []     # all (node, root, what) incl. paired (flagged)
        self.return_sites = []  # (return node, root, depth<=1)

    # ------------------------------------------------------------------ driver
    def run(self):
        env = {p: {(p, 0)} for p in self.params}
        self._find_pairs()
        self.block(self.fn.body, env)

    def _find_pairs(self):
        """t = x.pop(K) ... x[K] = t / x.K = t  in the same block with only deepcopy(x) in between."""
        self._paired_nodes = set()
        for n in walk_no_nested(self.fn):
            body_lists = [getattr(n, f, None) for f in ('body', 'orelse', 'finalbody')]
            for body in body_lists:
                if not isinstance(body, list):
                    continue
                for i, st in enumerate(body):
                    if isinstance(st, ast.Assign) and isinstance(st.value, ast.Call) and isinstance(st.value.func, ast.Attribute) and \
                            st.value.func.attr == 'pop' and isinstance(st.value.func.value, ast.Name) and st.value.args and \
                            isinstance(st.value.args[0], ast.Constant) and isinstance(st.targets[0], ast.Name):
                        var, key, tmp = st.value.func.value.id, st.value.args[0].value, st.targets[0].id
                        for j in range(i + 1, len(body)):
                            s2 = body[j]
                            if isinstance(s2, ast.Assign) and isinstance(s2.value, ast.Name) and s2.value.id == tmp:
                                t = s2.targets[0]
                                if (isinstance(t, ast.Attribute) and dotted(t.value) == var and t.attr == key) or \
                                        (isinstance(t, ast.Subscript) and dotted(t.value) == var and
                                         isinstance(t.slice, ast.Constant) and t.slice.value == key):
                                    self._paired_nodes |= {st.value, s2}
                                    self.paired.append((st, s2, var, key))
                                break
                            # anything else than `y = copy.deepcopy(var)` in between breaks the pairing
                            okmid = isinstance(s2, ast.Assign) and isinstance(s2.value, ast.Call) and \
                                (dotted(s2.value.func) or '').endswith('deepcopy') and s2.value.args and dotted(s2.value.args[0]) == var
                            if not okmid:
                                break

    # ------------------------------------------------------------------ helpers
    def roots(self, val, kinds=('ref', 'shallow')):
        want0 = 'ref' in kinds
        wantn = 'shallow' in kinds
        return {r for r, k in val if (k == 0 and want0) or (k > 0 and wantn)}

    def note_mut(self, node, val, what, via=None, base=None, also_shallow1=False):
        """`base`: the expression through which the object is modified.  A modification through anything but the bare
        parameter name reaches *below* the parameter's top-level object (`deep`): such a callee also damages the caller's
        data when it is handed a fresh list/dict whose ELEMENTS are the caller's objects (depth 1)."""
        deep = not (isinstance(base, ast.Name) and base.id in self.params) if base is not None else True
        if via is not None:
            deep = deep or bool(self.s.mutates.get(via, {}).get('deep'))
        roots = set(self.roots(val, ('ref',)))
        if also_shallow1:
            roots |= {r for r, k in val if k == 1}
        for r in sorted(roots):
            paired = node in self._paired_nodes
            self.mut_sites.append((node, r, what, paired))
            if paired:
                continue
            if r not in self.mutated:
                self.mutated[r] = {'node': node, 'what': what, 'via': via, 'deep': deep}
            elif deep and not self.mutated[r].get('deep'):
                self.mutated[r]['deep'] = True

    def shallow_of(self, val):
        """a fresh container holding these values"""
        return {(r, min(k + 1, 3)) for r, k in val}

    def copy_of(self, val):
        """a fresh copy of the top-level container (elements shared)"""
        return {(r, max(k, 1)) for r, k in val}

    def elem_of(self, val):
        return {(r, max(k - 1, 0)) for r, k in val}

    def callee_fids(self, call):
        self._heuristic = False
        ts = [t[1] for t in self.cg.resolve(call.func, self.fn) if t[0] == 'func']
        cls = [t[1] for t in self.cg.resolve(call.func, self.fn) if t[0] == 'class']
        for c in cls:
            init = self.cg.res.attr_of(('class', c), '__init__')
            if init[0] == 'func':
                ts.append(init[1])
        if not ts and isinstance(call.func, ast.Attribute):
            for nm in [call.func.attr]:
                ts.extend(self.cg.res.methods_by_name.get(nm, ()))
            self._heuristic = bool(ts)
        return ts

    def passes_through(self, e):
        """e is a call to a package function that can return (part of) one of its arguments uncopied (summary `returns` <= 1)
        and that argument is itself an access path: f(obj[a:b]) hands the caller's items through."""
        if isinstance(e, ast.GeneratorExp) or not isinstance(e, ast.Call):
            return False
        for fid in [t[1] for t in self.cg.resolve(e.func, self.fn) if t[0] == 'func']:
            for pname, argexpr in self.bind_args(e, fid):
                if self.s.returns.get((fid, pname), 9) <= 1 and not isinstance(argexpr, set) and _is_access_path(argexpr):
                    return True
        return False

    def bind_args(self, call, fid):
        """[(param name, arg expr)] for a call to package function fid."""
        fn = self.repo.functions[fid]
        a = fn.args
        pos = [x.arg for x in a.posonlyargs + a.args]
        is_method = isinstance(self.repo.parent(fn), ast.ClassDef)
        out = []
        recv = None
        if is_method and isinstance(call.func, ast.Attribute):
            recv = call.func.value
            if pos:
                out.append((pos[0], recv))
            pos = pos[1:]
        elif is_method and fn.name == '__init__':
            pos = pos[1:]
        for i, arg in enumerate(call.args):
            if isinstance(arg, ast.Starred):
                break
            if i >= len(pos):
                if a.vararg is not None:
                    # element of the callee's *args tuple: one level below the parameter
                    out.append((a.vararg.arg, ast.Tuple(elts=[arg], ctx=ast.Load())))
                    continue
                break
            out.append((pos[i], arg))
        names = set(pos) | {x.arg for x in a.kwonlyargs}
        for k in call.keywords:
            if k.arg in names:
                out.append((k.arg, k.value))
        return out

    # ------------------------------------------------------------------ expressions
    def ev(self, e, env):
        if e is None:
            return set()
        if isinstance(e, ast.Name):
            return set(env.get(e.id, ()))
        if isinstance(e, ast.Constant):
            return set()
        if isinstance(e, (ast.Attribute,)):
            b = self.ev(e.value, env)
            if e.attr in self.s.scalar_fields:
                return set()            # immutable scalar by schema: aliasing it is harmless
            out = self.elem_of(b)
            if e.attr in self.s.input_fields and any(k <= 1 for r, k in b) and \
                    not all(self.s.arg_fresh.get((self.fid, r)) for r, k in b if k <= 1):
                # the carrier is an existing object (or a shallow copy of one): the content of these fields is
                # data of the caller's diffs/documents, whatever route the carrier took to get here
                out = out | {(DIFFDATA, 0)}
            return out
        if isinstance(e, ast.Subscript):
            b = self.ev(e.value, env)
            self.ev(e.slice, env) if not isinstance(e.slice, ast.Slice) else None
            if isinstance(e.slice, ast.Slice):
                return self.copy_of(b)
            return self.elem_of(b)
        if isinstance(e, (ast.List, ast.Tuple, ast.Set)):
            out = set()
            for x in e.elts:
                out |= self.shallow_of(self.ev(x, env))
            return out
        if isinstance(e, ast.Dict):
            out = set()
            for x in e.values:
                out |= self.shallow_of(self.ev(x, env))
            return out
        if isinstance(e, ast.Starred):
            return self.ev(e.value, env)
        if isinstance(e, ast.IfExp):
            self.ev(e.test, env)
            return self.ev(e.body, env) | self.ev(e.orelse, env)
        if isinstance(e, ast.BoolOp):
            out = set()
            for v in e.values:
                out |= self.ev(v, env)
            return out
        if isinstance(e, ast.BinOp):
            l, r = self.ev(e.left, env), self.ev(e.right, env)
            if isinstance(e.op, ast.Add):
                return self.copy_of(l) | self.copy_of(r)
            return set()
        if isinstance(e, (ast.ListComp, ast.SetComp, ast.GeneratorExp, ast.DictComp)):
            env2 = dict(env)
            for g in e.generators:
                it = self.ev(g.iter, env2)
                self.assign_target(g.target, self.elem_of(it), env2, None)
                for c in g.ifs:
                    self.ev(c, env2)
            if isinstance(e, ast.DictComp):
                return self.shallow_of(self.ev(e.value, env2))
            return self.shallow_of(self.ev(e.elt, env2))
        if isinstance(e, ast.Call):
            return self.call(e, env)
        if isinstance(e, (ast.Compare, ast.UnaryOp)):
            for ch in ast.iter_child_nodes(e):
                if isinstance(ch, ast.expr):
                    self.ev(ch, env)
            return set()
        if isinstance(e, ast.JoinedStr):
            return set()
        if isinstance(e, ast.Lambda):
            return set()
        if isinstance(e, ast.NamedExpr):
            v = self.ev(e.value, env)
            self.assign_target(e.target, v, env, e)
            return v
        return set()

    def call(self, c, env):
        d = dotted(c.func) or ''
        argvals = [self.ev(a, env) for a in c.args]
        kwvals = {k.arg: self.ev(k.value, env) for k in c.keywords}
        allargs = set()
        for v in argvals + list(kwvals.values()):
            allargs |= v
        last = d.split('.')[-1]
        if d in FRESH_DEEP or last in ('deepcopy',):
            return set()
        if d in SHALLOW_COPY or last in ('copy',) and d.startswith('copy'):
            return self.copy_of(allargs)
        if isinstance(c.func, ast.Attribute):
            recv = self.ev(c.func.value, env)
            m = c.func.attr
            if m in MUTATORS and self.roots(recv, ('ref',)):
                self.note_mut(c, recv, '%s.%s(...)' % (ast.unparse(c.func.value), m), base=c.func.value)
            if m in ABSORB_METHODS or m in MUTATORS:
                # a local (fresh/shallow) container absorbs references passed to it
                if isinstance(c.func.value, ast.Name) and allargs and not self.roots(recv, ('ref',)):
                    for r in sorted(self.roots(allargs)):
                        direct = any(r2 == r and k == 0 for v in argvals + list(kwvals.values()) for r2, k in v)
                        srcs = [a for a, v in zip(list(c.args) + [k.value for k in c.keywords], argvals + list(kwvals.values()))
                                if any(r2 == r and k <= 1 for r2, k in v) and (_is_access_path(a) or self.passes_through(a))]
                        self.escapes.append((c, r, '%s.%s(%s)' % (c.func.value.id, m, ', '.join(ast.unparse(a) for a in c.args)),
                                             'ref' if direct else 'shallow', bool(srcs), c.func.value.id))
                    env[c.func.value.id] = set(env.get(c.func.value.id, ())) | self.shallow_of(allargs)
                if isinstance(c.func.value, ast.Attribute) and dotted(c.func.value.value) == 'self' and allargs:
                    for r in self.roots(allargs):
                        self.absorbed.add(r)
            if m in SHALLOW_METHODS:
                return self.copy_of(recv)
            if m in REF_METHODS:
                return self.elem_of(recv) | (allargs if m in ('get', 'pop', 'setdefault') and len(c.args) > 1 else set())
            if m in STRING_METHODS and not self.callee_fids(c):
                return set()
        # package callees
        out = set()
        fids = self.callee_fids(c)
        heuristic = self._heuristic
        for fid in fids:
            for pname, argexpr in self.bind_args(c, fid):
                if heuristic and isinstance(c.func, ast.Attribute) and argexpr is c.func.value:
                    continue        # receiver type unknown: a same-named method of a package class proves nothing about it
                v = self.ev(argexpr, env) if not isinstance(argexpr, set) else argexpr
                if not heuristic:
                    self.s._obs[(fid, pname)] = self.s._obs.get((fid, pname), True) and not v
                if not v:
                    continue
                if (fid, pname) in self.s.mutates:
                    deep = bool(self.s.mutates[(fid, pname)].get('deep'))
                    if self.roots(v, ('ref',)) or (deep and any(k == 1 for r, k in v)):
                        self.note_mut(c, v, 'passes %s to %s (parameter %s is mutated there%s)' % (
                            ast.unparse(argexpr)[:40], fid, pname, ', below its top level' if deep else ''),
                            via=(fid, pname), base=argexpr if not isinstance(argexpr, set) else None, also_shallow1=deep)
                k = self.s.returns.get((fid, pname))
                if k is not None:
                    out |= {(r, min(kk + k, 3)) for r, kk in v}
                if (fid, pname) in self.s.absorbs and isinstance(c.func, ast.Attribute) and isinstance(c.func.value, ast.Name):
                    nm = c.func.value.id
                    if not self.roots(env.get(nm, set()), ('ref',)):
                        env[nm] = set(env.get(nm, ())) | self.shallow_of(v)
        if not fids and last in EXTERNAL_INPLACE and argvals:
            # third-party normalisers that rewrite their first argument IN PLACE (below its top level) and return it: `a = rejoin_lines(a)` reads as a pure conversion
            v = argvals[0]
            if self.roots(v, ('ref',)) or any(k == 1 for r, k in v):
                self.note_mut(c, v, 'passes %s to %s(), which rewrites its argument in place' % (ast.unparse(c.args[0])[:40], d or last),
                              base=c.args[0], also_shallow1=True)
            return set(v)
        if not fids:
            # unknown/external callee: constructors of container-like classes keep references (NotebookNode(x), DiffEntry(**x))
            if last[:1].isupper() and allargs:
                return self.shallow_of(allargs)
        else:
            # class constructors of the package: object holds its arguments
            if any(t[0] == 'class' for t in self.cg.resolve(c.func, self.fn)) and allargs:
                out |= self.shallow_of(allargs)
        return out

    # ------------------------------------------------------------------ statements
    def assign_target(self, t, val, env, node):
        if isinstance(t, ast.Name):
            env[t.id] = set(val)
            if t.id == 'self':
                pass
        elif isinstance(t, (ast.Tuple, ast.List)):
            for x in t.elts:
                self.assign_target(x, self.elem_of(val), env, node)
        elif isinstance(t, ast.Starred):
            self.assign_target(t.value, val, env, node)
        elif isinstance(t, (ast.Subscript, ast.Attribute)):
            base = self.ev(t.value, env)
            if self.roots(base, ('ref',)):
                self.note_mut(node, base, 'store to %s' % ast.unparse(t), base=t.value)
            elif isinstance(t.value, ast.Name) and val:
                for r in sorted(self.roots(val)):
                    direct = any(r2 == r and k == 0 for r2, k in val)
                    near = any(r2 == r and k <= 1 for r2, k in val) and hasattr(node, 'value') and (_is_access_path(node.value) or self.passes_through(node.value))
                    self.escapes.append((node, r, 'store %s = %s' % (ast.unparse(t), ast.unparse(node.value)[:50] if hasattr(node, 'value') else '?'),
                                         'ref' if direct else 'shallow', near, t.value.id))
                env[t.value.id] = set(env.get(t.value.id, ())) | self.shallow_of(val)
            elif isinstance(t.value, ast.Attribute) and dotted(t.value.value) == 'self' or dotted(t.value) == 'self':
                for r in self.roots(val):
                    self.absorbed.add(r)

    def block(self, stmts, env):
        for st in stmts:
            self.stmt(st, env)

    def merge(self, envs):
        out = {}
        for e in envs:
            for k, v in e.items():
                out[k] = set(out.get(k, ())) | set(v)
        return out

    def stmt(self, st, env):
        if isinstance(st, ast.Assign):
            v = self.ev(st.value, env)
            for t in st.targets:
                if isinstance(t, (ast.Tuple, ast.List)) and isinstance(st.value, (ast.Tuple, ast.List)) and len(t.elts) == len(st.value.elts):
                    for te, ve in zip(t.elts, st.value.elts):
                        self.assign_target(te, self.ev(ve, env), env, st)
                else:
                    self.assign_target(t, v, env, st)
        elif isinstance(st, ast.AnnAssign) and st.value is not None:
            self.assign_target(st.target, self.ev(st.value, env), env, st)
        elif isinstance(st, ast.AugAssign):
            v = self.ev(st.value, env)
            if isinstance(st.target, ast.Name):
                cur = env.get(st.target.id, set())
                # a name that was bound to a list-typed field of a diff entry / decision / notebook IS that list: += extends it in place
                listy = any(isinstance(n, ast.Assign) and any(isinstance(t, ast.Name) and t.id == st.target.id for t in n.targets) and
                            isinstance(n.value, ast.Attribute) and n.value.attr in LIST_FIELDS for n in walk_no_nested(self.fn))
                if self.roots(cur, ('ref',)) and (listy or isinstance(st.value, (ast.List, ast.Dict, ast.Set, ast.ListComp, ast.DictComp, ast.SetComp))):
                    # in-place for lists/dicts/sets; plain rebinding for str/int (types unknown: only container displays count)
                    self.note_mut(st, cur, 'augmented assignment %s' % ast.unparse(st)[:50], base=st.target)
                env[st.target.id] = set(cur) | self.copy_of(v)
            else:
                base = self.ev(st.target.value, env)
                if self.roots(base, ('ref',)):
                    self.note_mut(st, base, 'augmented store %s' % ast.unparse(st)[:50], base=st.target.value)
        elif isinstance(st, ast.Delete):
            for t in st.targets:
                if isinstance(t, (ast.Subscript, ast.Attribute)):
                    base = self.ev(t.value, env)
                    if self.roots(base, ('ref',)):
                        self.note_mut(st, base, 'del %s' % ast.unparse(t), base=t.value)
        elif isinstance(st, ast.Expr):
            self.ev(st.value, env)
        elif isinstance(st, ast.Return):
            v = self.ev(st.value, env)
            for r, k in v:
                old = self.returned.get(r)
                self.returned[r] = k if old is None else min(old, k)
                if k <= 1 and st.value is not None:
                    self.return_sites.append((st, r, k))
        elif isinstance(st, ast.If):
            self.ev(st.test, env)
            e1, e2 = dict(env), dict(env)
            self.block(st.body, e1)
            self.block(st.orelse, e2)
            m = self.merge([e1, e2])
            env.clear()
            env.update(m)
        elif isinstance(st, (ast.For, ast.AsyncFor)):
            it = self.ev(st.iter, env)
            for _ in range(2):
                e1 = dict(env)
                self.assign_target(st.target, self.elem_of(it), e1, st)
                self.block(st.body, e1)
                m = self.merge([env, e1])
                env.clear()
                env.update(m)
            self.block(st.orelse, env)
        elif isinstance(st, ast.While):
            for _ in range(2):
                self.ev(st.test, env)
                e1 = dict(env)
                self.block(st.body, e1)
                m = self.merge([env, e1])
                env.clear()
                env.update(m)
            self.block(st.orelse, env)
        elif isinstance(st, (ast.With, ast.AsyncWith)):
            for it in st.items:
                v = self.ev(it.context_expr, env)
                if it.optional_vars is not None:
                    self.assign_target(it.optional_vars, set(), env, st)
            self.block(st.body, env)
        elif isinstance(st, ast.Try):
            e0 = dict(env)
            self.block(st.body, env)
            envs = [env]
            for h in st.handlers:
                eh = self.merge([e0, env])
                self.block(h.body, eh)
                envs.append(eh)
            m = self.merge(envs)
            env.clear()
            env.update(m)
            self.block(st.orelse, env)
            self.block(st.finalbody, env)
        elif isinstance(st, ast.Assert):
            self.ev(st.test, env)
        elif isinstance(st, ast.Raise):
            self.ev(st.exc, env) if st.exc is not None else None
        elif isinstance(st, FuncTypes + (ast.ClassDef,)):
            pass
        else:
            for ch in ast.iter_child_nodes(st):
                if isinstance(ch, ast.expr):
                    self.ev(ch, env)
