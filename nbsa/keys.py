"""Key truthiness rule: a diff key / path element is never tested by truthiness.

Keys of diff entries and elements of paths are list indices, line numbers or dict keys: 0 and "" are
legitimate values.  A test ``if key:`` / ``key or default`` / ``not key`` silently treats the first item
of a list, the first line of a string or an empty-string key as "no key".  The absence of a key is
represented in this code base by ``None`` (tested with ``is None``) or by an empty *tuple* of path
elements (``split_string_path``), never by a falsy scalar.

Key-kind values (syntactic, resolved through local assignments and one level of call-return position):
  * ``<entry>.key``;
  * an element of something path-like: ``path[i]`` (no slice), the loop variable of ``for k in <path>`` or
    the second variable of ``for i, k in enumerate(<path>)``, where <path> is a name/attribute whose
    identifier contains ``path``;
  * the value unpacked from position i of a call to a package function one of whose ``return`` tuples
    carries a key-kind value at position i.
"""
import ast

from .core import walk_no_nested
from .util import local_defs


def _pathlike(e):
    if isinstance(e, ast.Name):
        return 'path' in e.id.lower()
    if isinstance(e, ast.Attribute):
        return 'path' in e.attr.lower()
    return False


class KeyKinds:
    def __init__(self, repo, cg):
        self.repo = repo
        self.cg = cg
        self._defs = {}

    def defs(self, fn):
        if fn not in self._defs:
            self._defs[fn] = local_defs(fn)
        return self._defs[fn]

    def expr(self, e, fn, seen=frozenset(), depth=0):
        if isinstance(e, ast.Attribute) and e.attr == 'key':
            return 'the key of a diff entry (%s)' % ast.unparse(e)
        if isinstance(e, ast.Subscript) and not isinstance(e.slice, (ast.Slice, ast.Tuple)) and _pathlike(e.value):
            return 'an element of %s' % ast.unparse(e.value)
        if isinstance(e, ast.Name):
            return self.name(e.id, fn, seen, depth)
        return None

    def name(self, nm, fn, seen, depth):
        if nm in seen or depth > 3:
            return None
        seen = seen | {nm}
        for v, k, st in self.defs(fn).get(nm, []):
            if k == 'for':
                tgt = getattr(st, 'target', None)
                if isinstance(v, ast.Call) and isinstance(v.func, ast.Name) and v.func.id == 'enumerate' and v.args and _pathlike(v.args[0]):
                    if isinstance(tgt, ast.Tuple) and len(tgt.elts) == 2 and isinstance(tgt.elts[1], ast.Name) and tgt.elts[1].id == nm:
                        return 'an element of %s' % ast.unparse(v.args[0])
                elif _pathlike(v) and isinstance(tgt, ast.Name):
                    return 'an element of %s' % ast.unparse(v)
            elif k == 'assign':
                r = self.expr(v, fn, seen, depth)
                if r:
                    return r
            elif k == 'unpack' and isinstance(v, ast.Call) and isinstance(st, ast.Assign) and isinstance(st.targets[0], ast.Tuple):
                pos = [i for i, t in enumerate(st.targets[0].elts) if isinstance(t, ast.Name) and t.id == nm]
                if not pos:
                    continue
                for t in self.cg.resolve(v.func, fn):
                    if t[0] != 'func' or t[1] not in self.repo.functions:
                        continue
                    callee = self.repo.functions[t[1]]
                    for r in walk_no_nested(callee):
                        if isinstance(r, ast.Return) and isinstance(r.value, ast.Tuple) and len(r.value.elts) > pos[0]:
                            kk = self.expr(r.value.elts[pos[0]], callee, frozenset(), depth + 1)
                            if kk:
                                return '%s, returned by %s' % (kk, t[1].split(':')[-1])
        return None


def truth_uses(fn):
    """Expressions whose *truthiness* is consulted in fn (if/while/ifexp/assert tests, operands of and/or/not,
    comprehension conditions)."""
    out = []

    def tests(e):
        if isinstance(e, (ast.Name, ast.Attribute, ast.Subscript)):
            out.append(e)
        elif isinstance(e, ast.UnaryOp) and isinstance(e.op, ast.Not):
            tests(e.operand)
        elif isinstance(e, ast.BoolOp):
            for v in e.values:
                tests(v)
    for n in walk_no_nested(fn):
        if isinstance(n, (ast.If, ast.While, ast.IfExp, ast.Assert)):
            tests(n.test)
        elif isinstance(n, ast.BoolOp):
            for v in (n.values[:-1] if isinstance(n.op, ast.Or) else n.values):
                tests(v)
        elif isinstance(n, ast.UnaryOp) and isinstance(n.op, ast.Not):
            tests(n.operand)
        elif isinstance(n, ast.comprehension):
            for i in n.ifs:
                tests(i)
    seen = set()
    res = []
    for e in out:
        if id(e) not in seen:
            seen.add(id(e))
            res.append(e)
    return res


def key_truthiness(ctx, rule, module_prefixes, consequence):
    """Report every truthiness test of a key-kind value in the functions of the given modules.
    One summary instance per module (how many tests were examined) + one finding per offending test."""
    repo = ctx.repo
    kk = KeyKinds(repo, ctx.cg)
    per_mod = {}
    for fid, fn in sorted(repo.functions.items()):
        mod = fid.split(':')[0]
        if not any(mod == p or mod.startswith(p) for p in module_prefixes):
            continue
        uses = truth_uses(fn)
        per_mod.setdefault(mod, [0, 0])
        per_mod[mod][0] += len(uses)
        for e in uses:
            why = kk.expr(e, fn)
            if why:
                per_mod[mod][1] += 1
                ctx.inst(rule, fid, 'truthiness of %s' % repo.norm(e), False,
                         '%s is %s: 0 (first item / first line) and "" are legitimate keys but test false -- %s' % (
                             ast.unparse(e), why, consequence), e)
    for mod, (n, bad) in sorted(per_mod.items()):
        ctx.inst(rule, mod, '%d truthiness test(s) examined' % n, True,
                 'none of them tests a diff key or a path element' if not bad else '%d of them test a key (reported separately)' % bad,
                 None, nontrivial=n > 0)
    return per_mod
