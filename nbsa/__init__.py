"""nbsa -- repository-specific static analyser for jupyter/nbdime (properties C01-C20).

Pure standard library.  Nothing in this package imports or executes nbdime.
"""
