"""Three-valued partial evaluation of expressions and if/elif chains over a finite domain.

Values: python constants, tuples of them, UNKNOWN, and Abstract objects (a value known only by a
*tag*, e.g. "the list of diff entries whose chunk-type name is 'AP'").
"""
import ast

from .core import dotted


class _Unknown:
    def __repr__(self):
        return 'UNKNOWN'


UNKNOWN = _Unknown()


class Abstract:
    """A value identified by a tag.  eq(other): tags differ -> False; both empty tag -> True; else UNKNOWN.
    truthiness: tag non-empty.  Subscripting with [0]/[1] yields AbstractEntry for the letter."""

    def __init__(self, tag, letter_ops=None):
        self.tag = tag
        self.letter_ops = letter_ops or {}

    def __repr__(self):
        return 'Abstract(%r)' % self.tag


class AbstractEntry:
    """A diff entry known only by its op."""

    def __init__(self, op):
        self.op = op

    def __repr__(self):
        return 'Entry(%r)' % self.op


EQUALITY_HELPERS = {'strict_equal', 'compare_strict'}


class Evaluator:
    def __init__(self, env=None, consts=None, calls=None):
        self.env = dict(env or {})
        self.consts = consts or {}      # dotted name -> constant  (e.g. 'DiffOp.PATCH' -> 'patch')
        self.calls = calls or {}        # function name -> python callable on evaluated args

    def ev(self, e):
        env = self.env
        if isinstance(e, ast.Constant):
            return e.value
        if isinstance(e, ast.Name):
            if e.id in env:
                return env[e.id]
            if e.id in self.consts:
                return self.consts[e.id]
            return UNKNOWN
        if isinstance(e, ast.Attribute):
            d = dotted(e)
            if d in self.consts:
                return self.consts[d]
            if d in env:
                return env[d]
            base = self.ev(e.value)
            if isinstance(base, AbstractEntry) and e.attr == 'op':
                return base.op
            return UNKNOWN
        if isinstance(e, ast.Tuple) or isinstance(e, ast.List) or isinstance(e, ast.Set):
            vals = [self.ev(x) for x in e.elts]
            if any(v is UNKNOWN for v in vals):
                return UNKNOWN
            return tuple(vals)
        if isinstance(e, ast.BinOp) and isinstance(e.op, ast.Add):
            l, r = self.ev(e.left), self.ev(e.right)
            if isinstance(l, str) and isinstance(r, str):
                return l + r
            if isinstance(l, tuple) and isinstance(r, tuple):
                return l + r
            return UNKNOWN
        if isinstance(e, ast.BinOp) and isinstance(e.op, ast.Mult):
            l, r = self.ev(e.left), self.ev(e.right)
            if isinstance(l, str) and isinstance(r, int) and not isinstance(r, bool):
                return l * r
            if isinstance(r, str) and isinstance(l, int) and not isinstance(l, bool):
                return r * l
            return UNKNOWN
        if isinstance(e, ast.BinOp) and isinstance(e.op, ast.Mod):
            l, r = self.ev(e.left), self.ev(e.right)
            if isinstance(l, str) and r is not UNKNOWN and not isinstance(r, (Abstract, AbstractEntry)):
                try:
                    return l % r
                except (TypeError, ValueError):
                    return UNKNOWN
            return UNKNOWN
        if isinstance(e, ast.JoinedStr):
            parts = []
            for v in e.values:
                if isinstance(v, ast.Constant):
                    parts.append(str(v.value))
                elif isinstance(v, ast.FormattedValue):
                    x = self.ev(v.value)
                    if x is UNKNOWN or isinstance(x, (Abstract, AbstractEntry)):
                        return UNKNOWN
                    parts.append(str(x))
            return ''.join(parts)
        if isinstance(e, ast.UnaryOp) and isinstance(e.op, ast.USub):
            v = self.ev(e.operand)
            return -v if isinstance(v, (int, float)) and not isinstance(v, bool) else UNKNOWN
        if isinstance(e, ast.UnaryOp) and isinstance(e.op, ast.Not):
            v = self.truth(self.ev(e.operand))
            return UNKNOWN if v is UNKNOWN else (not v)
        if isinstance(e, ast.BoolOp):
            vals = [self.ev(x) for x in e.values]
            truths = [self.truth(v) for v in vals]
            if isinstance(e.op, ast.And):
                if any(t is False for t in truths):
                    return False
                if all(t is True for t in truths):
                    return vals[-1] if not isinstance(vals[-1], (Abstract, AbstractEntry)) else True
                return UNKNOWN
            else:
                for v, t in zip(vals, truths):
                    if t is True:
                        return v if not isinstance(v, (Abstract, AbstractEntry)) else True
                    if t is UNKNOWN:
                        return UNKNOWN
                return vals[-1] if not isinstance(vals[-1], (Abstract, AbstractEntry)) else False
        if isinstance(e, ast.IfExp):
            t = self.truth(self.ev(e.test))
            if t is True:
                return self.ev(e.body)
            if t is False:
                return self.ev(e.orelse)
            return UNKNOWN
        if isinstance(e, ast.Call) and isinstance(e.func, ast.Name) and e.func.id in EQUALITY_HELPERS and len(e.args) == 2 and not e.keywords \
                and e.func.id not in self.calls:
            # a two-argument equality helper of the package (type-strict ==) is an equality test for the evaluator
            return self.ev(ast.Compare(left=e.args[0], ops=[ast.Eq()], comparators=[e.args[1]]))
        if isinstance(e, ast.Compare):
            left = self.ev(e.left)
            res = True
            for op, c in zip(e.ops, e.comparators):
                right = self.ev(c)
                r = self.cmp(op, left, right)
                if r is False:
                    return False
                if r is UNKNOWN:
                    res = UNKNOWN
                left = right
            return res
        if isinstance(e, ast.Subscript):
            base = self.ev(e.value)
            if isinstance(base, Abstract) and isinstance(e.slice, ast.Slice) and e.slice.step is None:
                lo = self.ev(e.slice.lower) if e.slice.lower is not None else None
                hi = self.ev(e.slice.upper) if e.slice.upper is not None else None
                if (lo is None or isinstance(lo, int)) and (hi is None or isinstance(hi, int)):
                    return Abstract(base.tag[lo:hi], base.letter_ops)
                return UNKNOWN
            idx = self.ev(e.slice)
            if isinstance(base, Abstract) and isinstance(idx, int):
                # entries are ordered: addrange first, then patch/removerange
                if -len(base.tag) <= idx < len(base.tag):
                    return AbstractEntry(base.letter_ops.get(base.tag[idx], UNKNOWN))
                return UNKNOWN
            if isinstance(base, (tuple, str)) and isinstance(idx, int):
                try:
                    return base[idx]
                except IndexError:
                    return UNKNOWN
            if isinstance(base, dict) and not isinstance(idx, _Unknown):
                return base.get(idx, UNKNOWN)
            return UNKNOWN
        if isinstance(e, ast.Call):
            fn = dotted(e.func)
            if fn == 'bool' and len(e.args) == 1:
                return self.truth(self.ev(e.args[0]))
            if fn == 'len' and len(e.args) == 1:
                v = self.ev(e.args[0])
                if isinstance(v, Abstract):
                    return len(v.tag)
                if isinstance(v, (tuple, str)):
                    return len(v)
                return UNKNOWN
            if fn in self.calls:
                return self.calls[fn](self, e)
            if isinstance(e.func, ast.Attribute) and e.func.attr == 'format' and not e.keywords:
                b = self.ev(e.func.value)
                args = [self.ev(a) for a in e.args]
                if isinstance(b, str) and all(a is not UNKNOWN and not isinstance(a, (Abstract, AbstractEntry)) for a in args):
                    try:
                        return b.format(*args)
                    except (IndexError, KeyError, ValueError):
                        return UNKNOWN
            if isinstance(e.func, ast.Attribute) and e.func.attr == 'replace' and len(e.args) == 2:
                b, a0, a1 = self.ev(e.func.value), self.ev(e.args[0]), self.ev(e.args[1])
                if all(isinstance(x, str) for x in (b, a0, a1)):
                    return b.replace(a0, a1)
            if isinstance(e.func, ast.Attribute) and e.func.attr == 'startswith' and len(e.args) == 1:
                b, a0 = self.ev(e.func.value), self.ev(e.args[0])
                if isinstance(b, str) and isinstance(a0, str):
                    return b.startswith(a0)
            return UNKNOWN
        return UNKNOWN

    def truth(self, v):
        if v is UNKNOWN:
            return UNKNOWN
        if isinstance(v, Abstract):
            return bool(v.tag)
        if isinstance(v, AbstractEntry):
            return True
        return bool(v)

    def cmp(self, op, l, r):
        if isinstance(op, (ast.Is, ast.IsNot)):
            if l is UNKNOWN or r is UNKNOWN or isinstance(l, (Abstract, AbstractEntry)) or isinstance(r, (Abstract, AbstractEntry)):
                if (l is None and isinstance(r, (Abstract, AbstractEntry))) or (r is None and isinstance(l, (Abstract, AbstractEntry))):
                    return isinstance(op, ast.IsNot)
                return UNKNOWN
            res = (l is r) or (l == r and type(l) is type(r) and isinstance(l, (str, int, bool, type(None))))
            return res if isinstance(op, ast.Is) else (not res)
        if isinstance(op, (ast.Eq, ast.NotEq)):
            res = self.eq(l, r)
            if res is UNKNOWN:
                return UNKNOWN
            return res if isinstance(op, ast.Eq) else (not res)
        if isinstance(op, (ast.In, ast.NotIn)):
            if l is UNKNOWN or r is UNKNOWN or not isinstance(r, (tuple, str, dict)):
                return UNKNOWN
            if isinstance(l, (Abstract, AbstractEntry)):
                return UNKNOWN
            try:
                res = l in r
            except TypeError:
                return UNKNOWN
            return res if isinstance(op, ast.In) else (not res)
        if isinstance(op, (ast.Lt, ast.LtE, ast.Gt, ast.GtE)):
            if isinstance(l, (int, float)) and isinstance(r, (int, float)):
                return {ast.Lt: l < r, ast.LtE: l <= r, ast.Gt: l > r, ast.GtE: l >= r}[type(op)]
            return UNKNOWN
        return UNKNOWN

    def eq(self, l, r):
        if l is UNKNOWN or r is UNKNOWN:
            return UNKNOWN
        if isinstance(l, Abstract) and isinstance(r, Abstract):
            if l.tag != r.tag:
                return False
            if l.tag == '':
                return True
            return UNKNOWN
        if isinstance(l, AbstractEntry) and isinstance(r, AbstractEntry):
            if l.op is not UNKNOWN and r.op is not UNKNOWN and l.op != r.op:
                return False
            return UNKNOWN
        if isinstance(l, (Abstract, AbstractEntry)) or isinstance(r, (Abstract, AbstractEntry)):
            return UNKNOWN
        return l == r


def reachable_arms(ev, ifnode):
    """Arms of an if/elif/else chain that can execute under ev's environment.

    Returns list of (index or 'else', body).  An arm is reachable if its test is not False and no
    earlier test is definitely True."""
    from .util import if_chain
    arms, orelse = if_chain(ifnode)
    out = []
    for i, (test, body, node) in enumerate(arms):
        t = ev.truth(ev.ev(test))
        if t is True:
            out.append((i, body))
            return out
        if t is UNKNOWN:
            out.append((i, body))
    out.append(('else', orelse))
    return out
