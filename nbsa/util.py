"""Small AST helpers shared by the rule modules."""
import ast

from .core import FuncTypes, dotted, const_str, walk_no_nested


def calls_in(node, nested=True):
    it = ast.walk(node) if nested else walk_no_nested(node)
    for n in it:
        if isinstance(n, ast.Call):
            yield n


def call_name(call):
    return dotted(call.func)


def last_attr(call):
    f = call.func
    if isinstance(f, ast.Attribute):
        return f.attr
    if isinstance(f, ast.Name):
        return f.id
    return None


def if_chain(stmt):
    """Flatten if/elif/.../else (also ``else: if`` nesting with a single If in orelse).

    Returns (arms, else_body) with arms = [(test, body, ifnode)].
    """
    arms = []
    cur = stmt
    while True:
        arms.append((cur.test, cur.body, cur))
        if len(cur.orelse) == 1 and isinstance(cur.orelse[0], ast.If):
            cur = cur.orelse[0]
            continue
        break
    orelse = cur.orelse
    # guard-clause form: `if a: return X` / `if b: return Y` / `<rest>` is the chain  if a .. elif b .. else <rest>.
    # Only when every arm collected so far leaves the block (so the following statements run exactly when all tests failed).
    if not orelse and CURRENT_REPO is not None and all(_leaves(b) for t, b, n in arms):
        blk, i = _block_of(stmt)
        if blk is not None:
            j = i + 1
            while j < len(blk) and isinstance(blk[j], ast.If) and not blk[j].orelse and _leaves(blk[j].body) and _same_subject(arms[0][0], blk[j].test):
                more, _ = if_chain_plain(blk[j])
                arms.extend(more)
                j += 1
            if j > i + 1 or (j < len(blk) and len(arms) > 0 and j == i + 1 and False):
                orelse = blk[j:]
    return arms, orelse


CURRENT_REPO = None


def if_chain_plain(stmt):
    arms = []
    cur = stmt
    while True:
        arms.append((cur.test, cur.body, cur))
        if len(cur.orelse) == 1 and isinstance(cur.orelse[0], ast.If):
            cur = cur.orelse[0]
            continue
        return arms, cur.orelse


def _leaves(body):
    return bool(body) and isinstance(body[-1], (ast.Return, ast.Raise, ast.Continue, ast.Break))


def _same_subject(t1, t2):
    """two tests of one dispatch: they mention a common variable / attribute (a == 'x' ... a == 'y'; isinstance(o, A) ... isinstance(o, B))"""
    def subj(t):
        return {ast.unparse(x) for x in ast.walk(t) if isinstance(x, (ast.Name, ast.Attribute)) and not (isinstance(x, ast.Name) and x.id in ('isinstance', 'len', 'DiffOp', 'str', 'list', 'dict'))}
    return bool(subj(t1) & subj(t2))


def _block_of(stmt):
    p = CURRENT_REPO.parent(stmt) if CURRENT_REPO is not None else None
    if p is None:
        return None, None
    for field in ('body', 'orelse', 'finalbody'):
        blk = getattr(p, field, None)
        if isinstance(blk, list):
            for i, s in enumerate(blk):
                if s is stmt:
                    return blk, i
    for h in getattr(p, 'handlers', []) or []:
        for i, s in enumerate(h.body):
            if s is stmt:
                return h.body, i
    return None, None


def ends_abruptly(body):
    """Does this block always end in raise (every path)?  returns 'raise' / None."""
    if not body:
        return None
    last = body[-1]
    if isinstance(last, ast.Raise):
        return 'raise'
    if isinstance(last, ast.If) and last.orelse:
        a = ends_abruptly(last.body)
        b = ends_abruptly(last.orelse)
        if a == 'raise' and b == 'raise':
            return 'raise'
    return None


def names_in(expr):
    return {n.id for n in ast.walk(expr) if isinstance(n, ast.Name)}


def local_defs(func):
    """name -> list of (value_expr, kind, stmt).  kind: 'assign' | 'unpack' | 'for' | 'with' | 'aug'.
    For unpack/for the value_expr is the whole RHS / iterable."""
    defs = {}

    def add(t, v, kind, st):
        if isinstance(t, ast.Name):
            defs.setdefault(t.id, []).append((v, kind, st))
        elif isinstance(t, (ast.Tuple, ast.List)):
            if kind == 'assign' and isinstance(v, (ast.Tuple, ast.List)) and len(v.elts) == len(t.elts):
                for te, ve in zip(t.elts, v.elts):
                    add(te, ve, 'assign', st)
            elif kind == 'for' and isinstance(v, (ast.Tuple, ast.List)) and v.elts and \
                    all(isinstance(e, (ast.Tuple, ast.List)) and len(e.elts) == len(t.elts) for e in v.elts):
                # for a, b in ((x1, y1), (x2, y2)): a ranges over (x1, x2), b over (y1, y2) -- position-wise, not "everything flows everywhere"
                for i, te in enumerate(t.elts):
                    add(te, ast.copy_location(ast.Tuple(elts=[e.elts[i] for e in v.elts], ctx=ast.Load()), v), 'for', st)
            else:
                for te in t.elts:
                    add(te, v, 'unpack' if kind == 'assign' else kind, st)
        elif isinstance(t, ast.Starred):
            add(t.value, v, kind, st)
    for n in walk_no_nested(func):
        if isinstance(n, ast.Assign):
            for t in n.targets:
                add(t, n.value, 'assign', n)
        elif isinstance(n, ast.AnnAssign) and n.value is not None:
            add(n.target, n.value, 'assign', n)
        elif isinstance(n, ast.AugAssign):
            add(n.target, n.value, 'aug', n)
        elif isinstance(n, (ast.For, ast.AsyncFor)):
            add(n.target, n.iter, 'for', n)
        elif isinstance(n, (ast.With, ast.AsyncWith)):
            for it in n.items:
                if it.optional_vars is not None:
                    add(it.optional_vars, it.context_expr, 'with', n)
        elif isinstance(n, ast.comprehension):
            add(n.target, n.iter, 'for', n)
        elif isinstance(n, ast.NamedExpr):
            add(n.target, n.value, 'assign', n)
        elif isinstance(n, ast.Call) and isinstance(n.func, ast.Attribute) and isinstance(n.func.value, ast.Name) and \
                n.func.attr in ('append', 'extend', 'insert', 'add', 'update', 'appendleft') and n.args:
            # content added to a local container flows into it
            defs.setdefault(n.func.value.id, []).append((n.args[-1], 'mutate', n))
    return defs


def depends_on(func, expr, pred, defs=None, _seen=None):
    """Flow-insensitive backward slice: does `expr` (through local assignments) contain a node
    satisfying pred?  Returns the matching node or None."""
    if defs is None:
        defs = local_defs(func)
    if _seen is None:
        _seen = set()
    for n in ast.walk(expr):
        if pred(n):
            return n
    for n in ast.walk(expr):
        if isinstance(n, ast.Name) and n.id in defs and n.id not in _seen:
            _seen.add(n.id)
            for v, kind, st in defs[n.id]:
                r = depends_on(func, v, pred, defs, _seen)
                if r is not None:
                    return r
    return None


def param_names(func):
    a = func.args
    out = [x.arg for x in a.posonlyargs + a.args + a.kwonlyargs]
    if a.vararg:
        out.append(a.vararg.arg)
    if a.kwarg:
        out.append(a.kwarg.arg)
    return out


def str_consts(node):
    return [n.value for n in ast.walk(node) if isinstance(n, ast.Constant) and isinstance(n.value, str)]


def is_const(node, value):
    return isinstance(node, ast.Constant) and node.value == value and type(node.value) is type(value)


def compare_eq_const(test, varname=None):
    """`x == 'lit'` / `'lit' == x` / `x in ('a','b')` -> (dotted x, [lits], positive) else None."""
    if isinstance(test, ast.Compare) and len(test.ops) == 1:
        op = test.ops[0]
        l, r = test.left, test.comparators[0]
        if isinstance(op, (ast.Eq, ast.NotEq)):
            for a, b in ((l, r), (r, l)):
                d = dotted(a)
                lit = const_val(b)
                if d is not None and lit is not NOVAL:
                    return d, [lit], isinstance(op, ast.Eq)
        if isinstance(op, (ast.In, ast.NotIn)) and isinstance(r, (ast.Tuple, ast.List, ast.Set)):
            d = dotted(l)
            lits = [const_val(e) for e in r.elts]
            if d is not None and all(x is not NOVAL for x in lits):
                return d, lits, isinstance(op, ast.In)
    return None


class _NoVal:
    def __repr__(self):
        return 'NOVAL'


NOVAL = _NoVal()


def const_val(node):
    if isinstance(node, ast.Constant):
        return node.value
    return NOVAL


def stmts_of(func):
    for n in walk_no_nested(func):
        if isinstance(n, ast.stmt) and n is not func:
            yield n


def find_calls(func, pred, nested=False):
    return [c for c in calls_in(func, nested=nested) if pred(c)]


def kwarg(call, name):
    for k in call.keywords:
        if k.arg == name:
            return k.value
    return None


def truth_under(test, pol, pred):
    """Given that `test` evaluated to `pol`, is the sub-expression selected by pred known to be
    truthy (True), known falsy (False), or unknown (None)?"""
    if pred(test):
        return pol
    if isinstance(test, ast.Call) and isinstance(test.func, ast.Name) and test.func.id == 'bool' and len(test.args) == 1 and not test.keywords:
        return truth_under(test.args[0], pol, pred)         # bool(x) has the truth value of x
    if isinstance(test, ast.UnaryOp) and isinstance(test.op, ast.Not):
        r = truth_under(test.operand, not pol, pred)
        return r
    if isinstance(test, ast.BoolOp):
        if isinstance(test.op, ast.And) and pol is True:
            for v in test.values:
                r = truth_under(v, True, pred)
                if r is not None:
                    return r
        if isinstance(test.op, ast.Or) and pol is False:
            for v in test.values:
                r = truth_under(v, False, pred)
                if r is not None:
                    return r
    return None


def tv_eval(e, atom, defs=None):
    """Three-valued (True / False / None=unknown) evaluation of a boolean expression; `atom(node)` decides leaves
    (returning None for leaves it knows nothing about).  With `defs` (local_defs of the function) a name that is
    assigned exactly once is evaluated through its definition."""
    if isinstance(e, ast.Name) and defs is not None:
        ds = defs.get(e.id, [])
        if len(ds) == 1 and ds[0][1] == 'assign':
            return tv_eval(ds[0][0], atom, None)
    if isinstance(e, ast.Call) and isinstance(e.func, ast.Name) and e.func.id == 'bool' and len(e.args) == 1 and not e.keywords:
        return tv_eval(e.args[0], atom, defs)
    if isinstance(e, ast.BoolOp):
        vals = [tv_eval(v, atom, defs) for v in e.values]
        if isinstance(e.op, ast.And):
            if any(v is False for v in vals):
                return False
            return True if all(v is True for v in vals) else None
        if any(v is True for v in vals):
            return True
        return False if all(v is False for v in vals) else None
    if isinstance(e, ast.UnaryOp) and isinstance(e.op, ast.Not):
        v = tv_eval(e.operand, atom, defs)
        return None if v is None else (not v)
    return atom(e)


def empty_file_fallback_sites(fn):
    """Inside `except ...NotJSONError:` handlers of fn: (handler, [(if-node guarding a bare raise, test)]) for the re-raise
    that keeps non-empty garbage an error."""
    out = []
    for n in walk_no_nested(fn):
        if isinstance(n, ast.ExceptHandler) and n.type is not None and 'NotJSONError' in ast.unparse(n.type):
            sites = []
            for x in ast.walk(n):
                if isinstance(x, ast.If) and any(isinstance(b, ast.Raise) and b.exc is None for b in x.body):
                    if any(isinstance(c, ast.Call) and isinstance(c.func, ast.Attribute) and c.func.attr == 'read' for c in ast.walk(x.test)):
                        sites.append(x)
            out.append((n, sites))
    return out


def pure_emptiness_test(test):
    """Is `test` true exactly when <file>.read(...) returned something?  Accepted: len(R) != 0, len(R) > 0, R, R != '' / b''."""
    def is_read(e):
        return isinstance(e, ast.Call) and isinstance(e.func, ast.Attribute) and e.func.attr == 'read' and isinstance(e.func.value, ast.Name)
    if is_read(test):
        return True
    if isinstance(test, ast.Compare) and len(test.ops) == 1:
        l, r = test.left, test.comparators[0]
        if isinstance(l, ast.Call) and isinstance(l.func, ast.Name) and l.func.id == 'len' and len(l.args) == 1 and is_read(l.args[0]) and \
                isinstance(r, ast.Constant) and r.value == 0 and isinstance(test.ops[0], (ast.NotEq, ast.Gt)):
            return True
        if is_read(l) and isinstance(r, ast.Constant) and r.value in ('', b'') and isinstance(test.ops[0], ast.NotEq):
            return True
    return False


def final_fallback(repo, cg, fn, target):
    """True iff the only way to leave `fn` other than through an earlier explicit `return` is `return <target>(...)`:
    the last top-level statement is that return, or the last top-level `if` chain ends in an else that is."""
    def is_ret(st):
        return isinstance(st, ast.Return) and isinstance(st.value, ast.Call) and ('func', target) in cg.resolve(st.value.func, fn)
    body = [s for s in fn.body if not (isinstance(s, ast.Expr) and isinstance(s.value, ast.Constant))]
    if not body:
        return False
    last = body[-1]
    if is_ret(last):
        return True
    if isinstance(last, ast.If):
        arms, orelse = if_chain(last)
        return bool(orelse) and is_ret(orelse[-1]) and all(b and isinstance(b[-1], (ast.Return, ast.Raise)) for t, b, n in arms)
    return False


def is_dynamic_differ_call(fn, call, _cache={}):
    """`diffit(...)` / `inner_differ(...)`: a call through a local name that holds a differ taken from the differ table
    (`x = config.differs[path]`) or a differ passed in as a parameter of an enclosing factory.  Name independent."""
    if not (isinstance(call, ast.Call) and isinstance(call.func, ast.Name)):
        return False
    nm = call.func.id
    key = id(fn)
    if key not in _cache:
        _cache[key] = local_defs(fn)
    for v, k, st in _cache[key].get(nm, []):
        if isinstance(v, ast.Subscript) and isinstance(v.value, ast.Attribute) and v.value.attr == 'differs':
            return True
    # closure variable of a differ factory: parameter named like a differ of the enclosing def
    return nm in ('diffit', 'inner_differ') or nm.endswith('differ')


def builder_names(fn):
    """Local names bound to a diff builder (`di = MappingDiffBuilder()`), plus builder-like parameters."""
    out = set()
    for n in ast.walk(fn):
        if isinstance(n, ast.Assign) and isinstance(n.value, ast.Call) and (dotted(n.value.func) or '').endswith('DiffBuilder'):
            out |= {t.id for t in n.targets if isinstance(t, ast.Name)}
    out |= {a.arg for a in fn.args.args if 'builder' in a.arg.lower()}
    return out
