"""Texts for MANIFEST.json (tools/gen_manifest.py writes the file)."""

_SUFFIX = (' Decides the structural necessary condition(s) named, on every path / table entry of the '
           'current source; does not decide the run-time behaviour itself.')

CLAIMED = {
    'C01': {
        'text': 'Three necessary conditions of the notebook round trip: R01.1 every op emitted at the (enumerated) builder call sites '
                'below diff_notebooks, by container kind of the builder, has a non-raising arm in patch_list/patch_dict/flatten/'
                'count_consumed_symbols; R01.2 nbpatch patches with to_diffentry_dicts(json.load(file)) (recursive for dicts and '
                'lists), nbdiff dumps the very diff object it computed from (base, remote); R01.3 no site on the notebook path '
                'concludes "unchanged" from type-blind equality.' + _SUFFIX,
        'note': 'Exact equality of patch(A, diff(A,B)) with B over all notebook pairs (LCS/snake arithmetic, heuristics) is not decided.',
        'technique': 'static analysis: emit-site/consumer-arm table agreement + def-use of the file interface',
    },
    'C02': {
        'text': 'R02.1 every comparison of values of the two documents that decides "unchanged" is str-guarded / schema-exact, no '
                'predicate table defaults to bare operator.__eq__, and equality helpers conjoin a number-type test; R02.2 builder '
                'ops = schema oneOf = documented ops and consumers have an arm per op; R02.3 all generic producers return builder '
                'results; R02.4 the three sibling gap emitters keep one cursor discipline (same key, length = next - key, slice '
                'of the second sequence).' + _SUFFIX,
        'note': 'LCS optimality, difflib behaviour and string flattening arithmetic are not decided.',
        'technique': 'static analysis: equality-site classification (guard dominance) + sibling cross-check of emitters',
    },
    'C04': {
        'text': 'R04.1 every value the merge code constructs and stores under a notebook field (similar-insert cell fields, cleared '
                'values, marker outputs, conflict records) has a syntactic JSON kind the nbformat schema admits at that path, for '
                'all minors where relevant; R04.2 cells made by nbformat constructors (which always add an id, fact read from the '
                'installed source) are stripped of the id under a flag that every caller derives from "some cell has an id"; '
                'R04.3 the result passes nbformat.from_dict on the only exit.' + _SUFFIX,
        'note': 'Validity of a concrete merged notebook (values coming from inputs) is run-time data and not decided.',
        'technique': 'static analysis: construction-site kind inference checked against JSON schemas read as data',
    },
    'C13': {
        'text': 'R13.1 alias/effect analysis: for every document parameter of the public API (diff, diff_notebooks, patch*, '
                'decide_merge*, merge_notebooks, apply_decisions, pretty_print_*) no store/del/augmented-assign/mutator reaches an '
                'object reachable from it -- forward alias tracking with nesting depth inside each function, parameter-mutation '
                'and return-alias summaries to a fixpoint over the package, registry/dynamic dispatch included; pop+restore '
                'pairs accepted. R13.2 every site that places a sub-object of an input into a result without copying is '
                'enumerated; the 27 existing sites are recorded known findings, a new site is a violation.' + _SUFFIX,
        'note': 'Heap flow (references stored in object attributes and read back in another function) is not followed; types are '
                'unknown (aug-assign on names counts only for container displays). Two named exemptions with reasons.',
        'technique': 'static analysis: interprocedural alias + in-place-mutation effect summaries (ownership-style)',
    },
    'C14': {
        'text': 'R14.1 the category->path table of set_notebook_diff_targets equals, per category, the set of starred paths at which '
                'the nbformat 4.5 schema declares that field (key filters only on leaves); R14.2 flags are wired to same-named '
                'parameters; R14.3 every sub-differ call on the notebook path forwards path and config, or (decided with the '
                'schema alternatives valid in that branch) no ignorable path lies below it and no wrong-path lookup can hit one; '
                'R14.4 installation semantics arm by arm.' + _SUFFIX,
        'note': 'Trusted: installed nbformat schema as the enumeration of where categories occur. Emptiness of the diff for '
                'notebooks differing only in ignored parts is implied only through these wiring conditions.',
        'technique': 'static analysis: table-vs-schema set comparison + argument-forwarding check along the differ call graph',
    },
    'C16': {
        'text': 'R16.1 every ANSI source (colorama constants, pygments terminal formatter, git --color* flags) is selected by '
                'use_color: table-row membership, index expression, guard dominance, and constant-folding of the git command on '
                'the use_color=False path; R16.2 op/container/renderer dispatches total (evaluator); R16.3 all writes of the '
                'diff printer under `if di`; R16.4 temp dirs removed in finally, tools launched only behind which() of the same '
                'executable.' + _SUFFIX,
        'note': '"Never fails" over all notebooks is not decided beyond dispatch totality; regex post-processing of tool output '
                'and the assert on git output are unarmed observations.',
        'technique': 'static analysis: guard dominance over ANSI sources + constant folding + dispatch exhaustiveness',
    },
    'C19': {
        'text': 'R19.1 sections parsed from docs/source/config.rst vs C3-linearised MRO of every entry-point class; R19.2 per '
                '(entry point, option) the carrying sections appear in documented specificity order; R19.3 layering shape of '
                'build_config/_load_config_files/recursive_update; R19.4 config only as argparse defaults before parsing; R19.5 '
                'for each console script the program name every reachable ConfigBackedParser sees is a key of the entry-point '
                'table, and every key is some parser\'s program name.' + _SUFFIX,
        'note': 'Three genuine defects recorded as known findings (Global section unused; `nbdime <cmd>` ignores configuration; '
                'server section unreachable). traitlets/argparse semantics trusted.',
        'technique': 'static analysis: documentation-vs-class-hierarchy comparison (C3 MRO) + call-graph reachability of parser constructions',
    },
    'C07': {
        'text': 'R07.1 conflict flag of the inline-source decision is def-use derived from the text-merge status in an accepted '
                'non-zero form and source is replaced by exactly the rendered text; R07.2 every renderer return that contains '
                'markers carries a non-zero literal status, status-0 returns hand back an input unchanged, external status is '
                'passed through unmodified; R07.3 every constant that flows into source lines / marker cells evaluates to '
                'marker-shaped text; R07.4 (evaluator) delete-vs-edit with a non-transient edit never reaches a deletion-'
                'picking arm under the default strategy.' + _SUFFIX,
        'note': 'Line survival/provenance through patch() and the output of git merge-file/diff3 are run-time text: not decided.',
        'technique': 'static analysis: def-use of status/flag, constant folding of fabricated text, partial evaluation of the delete-vs-edit chain',
    },
    'C10': {
        'text': 'R10.1 sibling table agreement: for use-base/use-local/use-remote each of 7 mapping sites (tryresolve, generic '
                'resolver, list arm, three renderers, merge_render; git --ours/--theirs tied to the file order of the command '
                'and to which text each temp file holds) selects the entity of that side (partial evaluation per strategy); '
                'R10.2 generic resolution clears the flag it resolves under the open-conflict guard; R10.3 root strategy is '
                'applied on every path of decide_merge_with_diff and use-* becomes root and per-field default.' + _SUFFIX,
        'note': 'The equivalence of the two resolution paths over all triples is behavioural and not decided.',
        'technique': 'static analysis: cross-sibling mapping-table comparison by partial evaluation + CFG must-pass-through',
    },
    'C11': {
        'text': 'By-construction clauses R11.1-R11.4: every differ returns a builder result / [] / another differ\'s result '
                '(dataflow over returns), sorted insertion and tie-break operators of the sequence builder, duplicate refusal '
                'of the mapping builder; op_patch reached only through builder.patch under `if diff`; recursion only under '
                'not-is_atomic (+ same type); builder op sets equal the schema oneOf; output differ cannot target data twice.' + _SUFFIX,
        'note': 'Bounds / non-overlap / key existence relative to a concrete base are value-level: not decided.',
        'technique': 'static analysis: return-value dataflow + guard dominance + schema/table comparison',
    },
    'C03': {
        'text': 'Proof by exhaustion over finite dispatch tables (R03.1-R03.6): a three-valued partial evaluator walks the '
                'chunk-type switch of _merge_lists for all 36 (local,remote) chunk types and the op table of _merge_dicts for '
                'all 18 op pairings (domains derived from chunk_typename / the builder OPS tuples): no aborting arm reachable, '
                'no use-before-assignment; emitted actions all handled by resolve_action; every (path, strategy) pair the '
                'strategy table can hold lands only on non-raising arms (fail only on schema-constant/string paths); '
                'parent_deleted stays internal; renderer selection total with 2-tuple returns.' + _SUFFIX,
        'note': 'Trusted: make_merge_chunks contract (<=1 addrange then <=1 patch/removerange per side), nbformat schema types. '
                'Value-dependent sanity asserts and exceptions inside patch() are not decided (no assert inventory is shipped).',
        'technique': 'static analysis: three-valued partial evaluation of if/elif dispatch chains over derived finite domains',
    },
    'C05': {
        'text': 'R05.1 (evaluator): for every chunk type / op pair with an untouched, one-sided or same-op change the FIRST '
                'reachable arm is the no-op / onesided / agreement arm and it is strategy-free; R05.2: strategy resolvers '
                'are entry-guarded by has_conflicted() and per-decision stores are under d.conflict (CFG guards); R05.3: '
                'local/remote mirror closure of the merger dispatch chains under a role-swapping AST transformation.' + _SUFFIX,
        'note': 'The algebraic laws themselves are behavioural. R05.3 has a stated residual false-alarm surface (asymmetric but '
                'equivalent rewrite of one arm of a mirror pair).',
        'technique': 'static analysis: partial evaluation of arm precedence + guard dominance + AST mirror-symmetry closure',
    },
    'C09': {
        'text': 'Vocabulary/shape rules R09.1-R09.4: emitted action set (def-use over add_decision / .action stores, incl. the '
                'image of strategy.replace) is a subset of the schema enum; decision fields minus schema properties equals the '
                'set validated() deletes, and every public producer returns validated()\'s result by plain name copies; the one '
                'sort, no re-ordering afterwards, apply iterates in order; op_* constructor fields equal the diff schema.' + _SUFFIX,
        'note': 'Apply-equals-merged / all-local / all-remote reconstruction and the correctness of the sort key are behavioural '
                'and not decided.',
        'technique': 'static analysis: writer/reader vocabulary set comparison between code, JSON schema and constructors',
    },
    'C15': {
        'text': 'Cross-language table agreement R15.1-R15.4: Python-emittable actions vs TS whitelist/union/resolveAction arms; '
                'op vocabulary vs TS DiffOp union and patcher/validator arms; separator set of str.splitlines vs the terminator '
                'alternation parsed from the TS splitLines regex literal; flattening shape on both sides. TS facts come from a '
                'purpose-built lexical scanner (listed with file:line in evidence).' + _SUFFIX,
        'note': 'TypeScript is never executed (no JS toolchain). Two genuine defects are recorded as known findings (take_max not '
                'accepted by TS; 8 line separators only Python splits at).',
        'technique': 'static analysis: cross-language vocabulary comparison via a TypeScript lexical scanner',
    },
    'C08': {
        'text': 'Command-path rules R08.1-R08.5: the value returned after merge_notebooks derives (def-use) from the '
                'conflicted-decision filter in an accepted zero/non-zero form, early zero only under the agreed-deletion '
                'test; no fall-through/bare return and callee status returned on all three script chains; no except '
                'handler on the command path completes normally; every output sink is dominated (CFG) by the three '
                'input reads and the merge and only logging follows; driver redirects out to %A and the registered '
                'placeholder order matches the parser positions.' + _SUFFIX,
        'note': 'Trusted: console-script wrapper semantics (sys.exit(main())), nbformat.write serialises before opening '
                '(checked as a fact on the installed source). Crash points inside the interpreter/OS are not enumerated.',
        'technique': 'static analysis: def-use origin of the exit status + CFG must-pass-through/dominance of output sinks',
    },
    'C20': {
        'text': 'Confinement and gating rules R20.1-R20.6: interprocedural taint (sources: self.request, get_argument*, '
                'path args) must not reach the path of any file-system write sink reachable from a handler; the store '
                'sink is dominated by the refusal branch; loop-stop/exit only in the close handler under the closable '
                'gate, closable defaults False, self.params never written at request time; read-only endpoints reach only '
                'temp-rooted sinks; diff/merge wiring passes library objects through unmodified; broad except handlers '
                're-raise as HTTPError>=400.' + _SUFFIX,
        'note': 'Trusted: tornado routing/dispatch, jupyter_server base classes; taint is flow-insensitive within a function '
                '(over-approximate). HTTP behaviour over request sequences is not executed.',
        'technique': 'static analysis: interprocedural taint + CFG branch dominance + call-graph reachability of sinks',
    },
    'C12': {
        'text': 'Effect analysis R12.1-R12.5 over every module-level mutable object (discovered, not listed): no explicit '
                'write and no implicit write (lookup on an auto-inserting table that has a key-sensitive reader) is '
                'reachable in the call graph from diff/merge/patch API or any tornado handler; function-attribute flags '
                'are reset in finally; lru_cache functions read only their key; reset helper shape; configuration API '
                'unreachable from handlers except one named cached exemption. This decides history-independence for the '
                'enumerated state for ALL histories at once.' + _SUFFIX,
        'note': 'Trusted: call-graph over-approximation (unknown receivers dispatch to every same-named package method; '
                'registry/parameter flow fixpoint); state inside third-party libraries not analysed.',
        'technique': 'static analysis: interprocedural effect analysis (global writes/readers) over a resolved call graph',
    },
    'C18': {
        'text': 'Sibling/table analysis R18.1-R18.5 of the four enable/disable pairs: every git-config key written is own, '
                'a no-prompt default, or a shared selector under the set_default guard (CFG branch dominance); disable '
                'unsets a shared key only after reading that key and comparing with nbdime (def-use origin); section '
                'removed == section registered; attributes file: read -> marker test -> append ordering, mode a, one line, '
                'marker/driver agreement; config-git runs all four.' + _SUFFIX,
        'note': 'Trusted: git config semantics for single-valued keys; argument vectors are string literals (a non-literal '
                'key is itself reported). Real git is not executed by the check.',
        'technique': 'static analysis: CFG guard dominance + literal argv table comparison across sibling functions',
    },
    'C17': {
        'text': 'Static rules R17.1-R17.4: every os.chdir is paired with a finally-restore of a value read from '
                'os.getcwd() before the change (origin query + CFG dominance); only-notebook filter, symmetric '
                'None/null-file handling and side pairing of path/blob/ref; the loop iterates git\'s own diff with '
                'the path filter forwarded and prefixed exactly once; ref/path disambiguation total.' + _SUFFIX,
        'note': 'Trusted: GitPython\'s diff(), os.chdir/getcwd semantics, the analyser\'s name resolution (resolution '
                'rate printed in evidence). Agreement with git over all histories is not decided.',
        'technique': 'static analysis: CFG dominance + def-use origin query + who-may-call over os.chdir',
    },
}

CLAIMED['C06'] = {
    'text': 'Structure of the pipeline a disjoint merge travels through, each clause a necessary condition of the guarantee '
            '(re-using rules of C05/C09/C10 on the current tree): one-sided chunks/keys reach the strategy-free one-sided arm first '
            '(R05.1, evaluator over all chunk types and op pairs); strategies never touch unconflicted decisions (R05.2); no use-* arm '
            'shadows a non-conflict arm (R10.5); both sides\' diffs are always computed, no equality shortcut (R09.9); mergers only add '
            'decisions, which carry both diffs and are sorted once (R09.10, R09.6, R09.3); entries re-sorted by key while applying '
            'decisions keep input order at equal keys, so an inserted cell stays in front of the edited cell it precedes (R09.8).' + _SUFFIX,
    'note': 'The guarantee proper -- chunk-boundary arithmetic, removerange splitting, offsets during descending application -- is index '
            'arithmetic and NOT decided; an off-by-one there is invisible to these rules. Claimed only for the pipeline shape.',
    'technique': 'static analysis: partial evaluation of arm precedence + guard dominance + construction-order check before stable sorts',
}

NOT_APPLICABLE = {}
for _p in ['C%02d' % i for i in range(1, 21)]:
    if _p not in CLAIMED and _p not in NOT_APPLICABLE:
        NOT_APPLICABLE[_p] = 'check not built yet in this revision of /verif (planned, see DESIGN.md section 3)'

NOTES = ('All checks are static (family: static analysis); they parse /repo on every run and never import nbdime. '
         'Exit 2 + ANALYSIS-ERROR means an anchor vanished or the analyser failed -- not a verdict. '
         'known_findings.json lists genuine defects recorded rather than repaired, keyed by rule/function/construct.')

# Rules added after the first build (DESIGN.md section 8): appended to the claim text.
MORE = {
    'C01': 'R01.4 differ and patcher split lines with the same primitive; R01.5 the codec/escaping nbdiff --out writes the diff file with is one nbpatch decodes identically under every locale. R01.6 the C12 effect analysis re-run (no module-level state written on the diff path); R01.7 call-signature compatibility, R01.8 name binding (undefined names, definite assignment), R01.9 op-guarded field reads of diff entries; R01.10 alignment predicates are reflexive (symbolic folding under y := x); R01.11 head/tail trimming scans do not overlap.',
    'C02': 'R02.5 no dict/set lookup on the diff path is keyed by document items; R02.6 one line-splitting primitive at every line-key site. R02.7 call signatures, R02.8 name binding, R02.9 op-guarded field reads; R02.10 the predicate/differ tables consulted by membership never insert on lookup; R02.11 head/tail trimming scans do not overlap.',
    'C03': 'R03.7 index algebra of the concurrent-insert splitter is consistent across arms; R03.8 constant indices into possibly empty line lists are guarded (loop variables over such lists included); R03.9 the per-field dispatch for merged similar inserts covers every cell field of the schema; R03.10 a base container is indexed with a diff/decision key only with evidence that the key exists (bound test, patch/remove chunk type, or a strategy that the table attaches to schema-required fields only); R03.11 no raise/assert is reachable for a text-merge exit status in 0..127. R03.12 call signatures, R03.13 name binding, R03.14 op-guarded field reads; R03.15 sort-key tuples start with a string in every branch; R03.16 section boundaries agree with the consumed-symbol table; R03.17 unguarded field lookups of similar inserts only for fields present in every minor; R03.18 resolver asserts only behind the path filter; R03.19 diff collectors treat None as empty; R03.20 no guard compares a variable with its own defining expression.',
    'C04': "R04.4 take_max reads each side's own value and the maximum ranges over base, local and remote. R04.5 values written by strategies with add/replace are a side's own value, the text-merge result or go under a constant schema-checked key; R04.6 no strategy arm before a non-conflict arm; R04.7 no tautological guard (dead patch-level adjustment).", 'C05': 'R05.4 adjacent assignments to a local/remote pair of names are mirror images of each other (48 pairs). R05.5 role-ordered diffs are re-sorted by key before application; R05.6 agreement between the sides is decided by a type-strict comparison.',
    'C07': "R07.5 the merged text is the tool's stdout only (stderr is not redirected into it). R07.6 cursor algebra of the insert splitter; R07.7 no similarity predicate is called from the merge package; R07.8 one line model at every Python line-key site; R07.9 trimming scans do not overlap.", 'C08': 'R08.6 log records never go to stdout; R08.7 an unreadable input is replaced by an empty notebook only behind a pure emptiness test. R08.8 call signatures, R08.9 name binding on the command path.',
    'C09': 'R09.5 cursor algebra of _split_addrange; R09.6 two-sided decisions carry both diffs; R09.7 no truthiness test of a diff key / path element; R09.8 entries re-sorted by key alone were appended one by one (stable order at equal keys); R09.9 no ==/!= between base, local and remote decides "unchanged"; R09.10 the mergers only add decisions. R09.11 local/remote diff arguments of every decision-builder call are mirror images (one expression for both only in the insert aligner); R09.12 merge_notebooks returns apply_decisions\' result unmodified; R09.13 type-strict agreement.',
    'C10': 'R10.4 conflicted decisions created by the mergers carry no strategy tag; R10.5 no use-* arm precedes an arm that settles a non-conflict; R10.6 every *strategy variable of the mergers is a lookup of its own path in the strategy table. R10.7 each field of the strategy table is derived from the option that governs it (source, attachments <- input; outputs <- output; metadata <- merge strategy).',
    'C11': 'R11.5/R11.6 nested patches are keyed by the base index / the iteration key itself; R11.7 no truthiness test of a diff key; R11.9 add vs replace of one key is decided by membership; R11.2 covers every wrapping of a decision diff into patch entries (op_patch or push_path) behind a truthiness test of that diff.',
    'C12': 'R12.1 also covers `global` rebinding of non-container module names on the path; R12.6 value-equality classes used as cache keys compare every field their behaviour reads.',
    'C13': 'R13.3 values reached through diff-entry fields are input data wherever found; summaries distinguish top-level from deep mutation, so a callee that modifies ELEMENTS is charged to callers passing a fresh list of caller-owned entries; private helpers whose every call site passes fresh objects are exempt from the input-data assumption.',
    'C14': "R14.5 every whole-path ignore is consulted by the parent differ for every JSON type the schema admits there (three-valued evaluation of the lookup guard, atomic_paths included); R14.6 key filters stack (the filter calls the differ it was given). R14.7 no entry for a common key is emitted past the differ table; R14.8 no ValueError other than 'unknown program' on the configuration path (the parser swallows it); R14.9 alignment predicates are reflexive.", 'C15': "R15.5 TS makeClearedValue and Python make_cleared_value map each of the six JSON kinds to the same result kind (both chains evaluated exhaustively with their language's typing rules); R15.6 Python re-sorts entries by key alone, like the TS side. R15.7 both implementations apply decisions to a deep copy of base.", 'C16': 'R16.5 no truthiness test of a line number / path element; R16.6 no class-level container written by renderer methods; R16.7 regexes stripping tool chatter are anchored at line start (re.M + ^, pattern parsed). R16.8 call signatures, R16.9 name binding, R16.10 op-guarded field reads in the renderer; R16.11 lexer name only from string-typed metadata fields; R16.12 every raising stream error handler is replaced by an escaping one.',
    'C17': 'R17.5 the sub-directory prefix is assembled in root-to-leaf order. R17.6 call signatures, R17.7 name binding; R17.8 the working-tree open catches OSError (not a subclass); R17.9 every entry gets a stream object of its own.',
    'C18': 'R18.6 a config subcommand never turns "already absent" into a non-zero status that would stop the config-git chain. R18.7 call signatures, R18.8 name binding; R18.9 empty XDG_CONFIG_HOME counts as unset; R18.10 no module-level container is extended in place by the git integration.',
    'C19': 'R19.3 additionally: the disk section is layered inside the MRO loop and not inside a loop over files; no directory of the search path can be skipped inside the reversed walk. R19.6 call signatures, R19.7 name binding; R19.8 no swallowed ValueError on the configuration path; R19.9 a section class re-declares an inherited option only with a non-None default.',
    'C20': 'R20.7 the store request is parsed before the output is opened; R20.8 start-up streams are rewound before each read; R20.9 handler methods store nothing in settings/params shared between requests (one named exemption); R20.10 a non-JSON file counts as an empty notebook only behind a pure emptiness test. R20.3 also scans tornado lifecycle hooks (on_finish ...); R20.11 call signatures, R20.12 name binding.',
}

# Session 4 (rules for defects hunted on the unchanged tree; nbsa/rules/extra.py)
MORE4 = {
    'C01': 'R01.12 the mime-value differ evaluated over every (mimetype class, JSON kind, JSON kind, equal?) the schema admits: only two strs/lists/dicts reach the recursive differ, no difference is dropped.',
    'C02': 'R02.12 the same finite-domain evaluation of the mime-value differ; R02.1 accepts a comparison that only routes between two differs.',
    'C03': 'R03.21 tool failure statuses fall through to the built-in renderer; R03.22 field-agreement asserts on similar inserted cells are backed by the predicates or a guard; R03.23 {entry.key: entry} maps only over combined diffs; R03.24 no truthiness guard on a never-empty per-side collection; R03.8 now armed for the git renderer.',
    'C04': 'R04.8 placeholders for missing/empty inputs take the format minor version of the real inputs before the merge.',
    'C05': 'R05.7 no truthiness guard on a never-empty per-side collection.',
    'C07': 'R07.10 temp files for the merge tools are written with a non-raising error handler; R07.11 tool failure statuses are never returned as a merge result; R07.12 diff3 only gets newline-terminated texts; R07.13 as R03.22; R07.14 key-only re-sorts are not applied to the concatenated diffs of several decisions (KNOWN FINDING).',
    'C08': 'R08.10 as R04.8 (else nbformat.write repairs missing ids with random ones: the file is not the library result).',
    'C09': 'R09.14 {entry.key: entry} maps only over combined diffs; R09.15 key-only re-sorts are not applied to the concatenated diffs of several decisions (KNOWN FINDING: insert above an agreed line patch).',
    'C13': 'R13.1 no longer accepts pop/restore pairs (key order); R13.4 renderers never store into the config they are given.',
    'C14': 'R14.10 as R01.12; R14.11 the cell renderer fallback excludes every gated field; R14.12 renderer gates agree with should_ignore_path; R14.13 one-sided keys of optional ignored fields (attachments) are hidden too.',
    'C16': 'R16.1 requires an explicit --no-color; R16.13 as R14.11; R16.14 only diffs of base are rendered against base; R16.15 values out of diffs are read by key; R16.16 temp files for external tools tolerate lone surrogates.',
}
for _k, _v in MORE4.items():
    MORE[_k] = (MORE[_k] + ' ' if _k in MORE else '') + _v

# Session 4, round-4 triage and hunters H6/H7
MORE5 = {
    'C01': 'R01.13 mapping differs handle all three key classes; R01.14 nbpatch -o: every successful exit passes through the write; R01.15 what may be declared atomic; R01.16 nested list patches keyed by the index in A.',
    'C02': 'R02.14 as R01.13; R02.15 as R01.15; R02.16 as R01.16.',
    'C03': 'R03.25 combine_patches returns only the folded list; R03.26 one line model in the string merger (C07 R07.8).',
    'C04': 'R04.9 no removing strategy on a schema-required field; R04.8 also rejects a placeholder test by file name only.',
    'C05': 'R05.8 merge_notebooks returns exactly (apply_decisions(base, decisions), decisions); R05.9 side-naming constants come in mirror pairs; R05.4 also checks bounds shared by a mirrored pair.',
    'C07': 'R07.15 mirrored pairs and shared bounds in the text-merge renderers.',
    'C08': 'R08.11 the stdout error handler is backslashreplace (JSON reads its escapes back).',
    'C09': 'R09.16 as R05.8.',
    'C10': 'R10.8 a use-* strategy test never chooses between recursive merge and a whole-value decision; R10.9 as R05.8.',
    'C11': 'R11.10 a replace built for a variable key has membership evidence; R11.11 lifting wraps innermost-first.',
    'C13': 'the alias analysis charges deep mutations of a *args parameter to the surplus positional arguments.',
    'C14': 'R14.14 output alignment never compares ignorable fields (per output type, against the schema); R14.15 no installation memo (C12 R12.1).',
    'C15': 'R15.8 clear on an absent key builds the same entry kind on both sides (KNOWN FINDING); R15.9 clear only on fields required somewhere; R15.10 no `in` presence test in the TypeScript diff/patch/merge code.',
    'C16': 'R16.17 constant index into splitlines() only after an emptiness test; R16.18 config forwarded to every helper that takes one.',
    'C17': 'R17.3 follows a diff helper and requires every return to be a diff result; R17.10 the base revision is never None; R17.11 filters cannot abort the listing; R17.12 paths after `--`; R17.13 git\'s verdict "deleted" reaches the open.',
    'C18': 'R18.4 marker test reads rule lines (comments skipped); helper form: append mode or lossless rewrite.',
    'C19': 'R19.10 sub-command parsers stay config backed.',
    'C20': 'R20.7 nothing but writes of an already serialised text while the output is open; R20.13 no class-level containers written by handler methods; R20.14 path parameters resolved against the cwd parameter only.',
}
for _k, _v in MORE5.items():
    MORE[_k] = (MORE[_k] + ' ' if _k in MORE else '') + _v


# Session 4, round-5 triage
MORE6 = {
    'C01': 'R01.17 the reviver does not judge payload; R01.18 differ values never tested by truthiness.',
    'C02': 'R02.17 as R01.18; R02.18 LCS grid holds plain integers; R02.19 type-strict equality is order-insensitive on objects.',
    'C03': 'R03.4 also evaluates the generic resolver for strategies a container resolver hands on.',
    'C04': 'R04.10 clear adds the cleared value when the key is absent from base.',
    'C05': 'R05.10 both sides are always diffed; R05.11 as R02.19.',
    'C06': 'R06.1 merge_notebooks returns exactly the applied decisions (C05 R05.8).',
    'C08': 'R08.12 os.write results are used.',
    'C09': 'R09.17 the decisions dump keeps ensure_ascii.',
    'C12': 'R12.10 table values are never mutated in place; R12.11 table readers are not memoised; R12.12 the option path keeps no memo.',
    'C14': 'R14.16 as R12.11; R14.17 as R12.12.',
    'C16': 'R16.19 pprint width is constant or clamped.',
    'C17': 'R17.14 blobs are decoded whole and strictly.',
    'C18': 'R18.11 driver registration precedes every return after the repository check.',
    'C19': 'R19.11 entry point by exact lookup; R19.3 treats shallow section layering as a finding.',
    'C20': 'R20.15 request names are used verbatim; R20.4 the store endpoint has exactly one persistent sink.',
}
for _k, _v in MORE6.items():
    MORE[_k] = (MORE[_k] + ' ' if _k in MORE else '') + _v
NOTES += (' The loader normalises the tree before any rule runs: functions absent from nbsa/baseline_functions.json (the reference tree) are inlined into their callers '
          '(nbsa/inline.py), so that "extract helper" refactorings do not move constructs out of the anchored functions; on the reference tree this is the identity.')


MORE7 = {
    'C02': 'R02.20 the order-sensitive similarity predicate always receives (item of the first document, item of the second).',
    'C04': 'R04.1 checks every path that carries record-conflict against the schema (object-valued nbdime-conflicts admissible).',
    'C05': 'R05.12 has_conflicted() is a pure scan of the current conflict flags; R05.2 accepts delegation to a guarded dispatcher.',
    'C06': 'R06.2 the id predicate has the highest precedence for /cells.',
    'C07': 'R07.16 no chunk type with an insertion hands it to a keep-base decision.',
    'C08': 'R08.13 no one-shot iterator is read twice on the command path; R08.14 no handler removes/renames/truncates a file.',
    'C10': 'R10.10 as R05.12.',
    'C11': 'R11.12 hand-built removals keyed by a decision index are behind existence evidence; R11.13 custom diffs take ready-made entries from one side only.',
    'C12': 'R12.13 no mutable parameter default is kept or changed.',
    'C13': 'R13.3 counts += on a name bound to a list-typed field as in-place.',
    'C14': 'R14.18 the configured Ignore mapping is installed whenever present.',
    'C15': 'R15.11 neither side post-processes the document after the last patch; R15.12 the list merger registers decisions in one pass over the chunks.',
    'C16': 'R16.20 every notebook read converts to major 4; R16.21 regex matches are tested before use on the rendering path.',
    'C17': 'R17.15 path filters reach git verbatim; R17.16 the clean filter runs through the shell with the configured string.',
    'C18': 'R18.12 repository-scope attributes: existence probe of .git in the current directory only; R18.13 driver sections are removed whatever value is registered.',
    'C19': 'R19.12 recursive_update stores under the key given; R19.13 as R14.18; R19.3 evaluates the search path symbolically (working directory first).',
    'C20': 'R20.16 each tool endpoint consults only its own tool\'s start-up arguments.',
}
for _k, _v in MORE7.items():
    MORE[_k] = (MORE[_k] + ' ' if _k in MORE else '') + _v
NOTES += (' Local closures absent from the reference tree are inlined like module-level helpers. Measured on 108 stored behaviour-preserving refactorings '
          '(twins/, three independent batches): no false VIOLATION; some end in exit 2 on a property whose rules cannot follow the rewrite.')


MORE8 = {
    'C01': 'R01.19 diff keys are the lookup keys (C11 R11.6); R01.20 items are never memo keys (C02 R02.5); R01.21 predicate operand order (C02 R02.20).',
    'C02': 'R02.21 patches descend only into same-kind containers (C11 R11.3); R02.22 the strict equality is reflexive (NaN).',
    'C03': 'R03.27 resolvers drop surviving decisions on entries they write themselves; R03.28 onesided() only with one empty operand (finite evaluation); R03.29 Strategies.transients is never None.',
    'C04': 'R04.11 level-relative actions (clear, remove, clear_all, take_max) are not moved to another level and kept; R04.12 output files are UTF-8.',
    'C05': 'R05.13 one line model (C07 R07.8); R05.14 as R02.22.',
    'C08': 'R08.11 (corrected) the stdout notebook is ASCII-only unless the stream is UTF-8; R08.15 as R04.12; R08.16 the output is opened only when the complete content exists.',
    'C11': 'R11.14 combine_patches joins insertions of one index; R11.15 hand-built removals have a positive length.',
    'C17': 'R17.4 decides is_gitref by truth table; R17.17 evaluates resolve_diff_args over its 16 command-line shapes.',
}
for _k, _v in MORE8.items():
    MORE[_k] = (MORE[_k] + ' ' if _k in MORE else '') + _v
NOTES += (' known_findings.json also lists, under "documented", genuine defects found by experiment that no static rule decides (C04 x4, C06 x2, C08, C10): the checks '
          'print them as KNOWN-FINDING lines and match nothing against them.')


MORE9 = {
    'C01': 'R01.22 nbpatch opens its output only when the content exists; R01.23 context managers restore in finally (C12 R12.17).',
    'C02': 'R02.23 signed zeros and deep comparison of un-recursed values; R02.24 truth table of the scalar equality over 144 pairs of JSON scalars; R02.25 the deep equality recurses with itself.',
    'C03': 'R03.30 chunk-level diffs are registered on the path of the list.',
    'C04': 'R04.13 no schema-required field is removed from an object that goes into the merged notebook.',
    'C05': 'R05.15 as R02.24.',
    'C07': 'R07.17 the merge tool\'s output is read as bytes.',
    'C08': 'R08.7 also rejects an emptiness test by file size.',
    'C09': 'R09.18 the inputs of decide_notebook_merge are diffed as given.',
    'C10': 'R10.11 an unresolved conflict carries no strategy tag.',
    'C12': 'R12.14 key filters do not nest; R12.15 two rule-backed known findings (flags / configured Ignore persist across entry-point runs in one process); R12.16 the reset restores every table the configuration writes; R12.17 context managers restore in finally.',
    'C14': 'R14.7 asks the ignore also for values of different types; R14.19 differ and printer agree on categories; R14.20/R14.21 the output renderer gates and excludes the fields of ignored categories.',
    'C16': 'R16.22 no assertion on tool output; R16.23 no wait() on a piped tool.',
    'C17': 'R17.18 the clean filter is looked up with --get; R17.2 the missing-blob arm has no other disjunct.',
    'C18': 'R18.2 rejects --unset-all on shared keys; R18.14 the global attributes lookup names its scope.',
    'C19': 'R19.3 requires the search path to be a list.',
    'C20': 'R20.17 the store truncates its output.',
}
for _k, _v in MORE9.items():
    MORE[_k] = (MORE[_k] + ' ' if _k in MORE else '') + _v


MORE10 = {
    'C01': 'R01.24 constructors accept null values; R01.25 difflib only for asserted strings.',
    'C02': 'R02.26 constructors do not test the value; R02.27 as R01.25; R02.28 no id() keys.',
    'C03': 'R03.31 decisions about two-sided insertions are dominated by their comparison; R03.32 no wait() on a piped tool.',
    'C04': 'R04.14 a side\'s sub-diff is not filtered before it is merged.',
    'C05': 'R05.16 the action "either" only for diffs asserted equal; R05.17 split_string_path tabulated over 18 (document, path) pairs.',
    'C06': 'R06.3 nothing after the decision loop of apply_decisions (C15 R15.11).',
    'C17': 'R17.19 nothing on the git-listing path writes module-level state (C12 R12.1).',
    'C07': 'R07.18 no line filter in the merge renderers; R07.19 affix trims do not overlap.',
    'C10': 'R10.12 conflicts on a key carry the key\'s strategy; R10.13 nothing modifies the decisions after the strategies ran; R10.14 star_path tabulated.',
    'C12': 'R12.18 memoised results are not modified; R12.19 no class-body container grown through self; R12.20 no id() keys.',
    'C14': 'R14.22 star_path tabulated (keys of the differ / ignore tables).',
    'C13': 'R13.1 knows third-party in-place normalisers (rejoin_lines, split_lines, strip_transient, upgrade, ...).',
    'C15': 'R15.13 no array spread into call arguments in the TypeScript patch functions; R15.14 applyDecisions compares paths element-wise; R15.15 stringified keys are JSON-escaped; R15.16 the object iterator ends on undefined, not on a falsy key; R15.17 (known finding) code points vs UTF-16 units; R15.18 (known finding) same-key patches are combined in Python only.',
    'C16': 'R16.24 no fixed element of a split text in the renderers.',
    'C18': 'R18.15 every exit of disable() passed a git-config call.',
    'C19': 'R19.3 follows a one-line wrapper of the search path and rejects modifying a memoised list.',
    'C20': 'R20.18 every answer of the diff / merge endpoint is dominated by the library call.',
}
for _k, _v in MORE10.items():
    MORE[_k] = (MORE[_k] + ' ' if _k in MORE else '') + _v


MORE11 = {
    'C01': 'R01.26 line splitting keeps terminators; R01.25 also rejects diffs derived from difflib opcodes outside seq_difflib; R01.27 no alignment predicate decides what a notebook differ reports.',
    'C03': 'R03.1 also evaluates the leading asserts of _merge_concurrent_inserts with the abstract arguments of every call in the 36-type chunk model.',
    'C11': 'R11.16 the diff stored under a MIME key is a differ\'s result on the stored payloads themselves.',
    'C18': 'R18.16 the global attributes location has no existence test.',
    'C19': 'R19.14 recursive_update tabulated over 22 cases.',
    'C04': 'R04.15 /nbformat_minor is always take-max.',
    'C08': 'R08.17 file names are used verbatim (no expanduser / expandvars / abspath).',
    'C15': 'R15.19 take_max ranges over base, local, remote on both sides (R04.4); R15.20 decisions leave in validated() order (R09.2).',
    'C16': 'R16.25 action tables indexed with .action cover every emitted action.',
    'C17': 'R17.20 git check-attr is run with -z.',
    'C20': 'R20.19 nothing touches the notebooks between reading them and the library call.',
}
for _k, _v in MORE11.items():
    MORE[_k] = (MORE[_k] + ' ' if _k in MORE else '') + _v
