"""Texts for MANIFEST.json (tools/gen_manifest.py writes the file)."""

_SUFFIX = (' Decides the structural necessary condition(s) named, on every path / table entry of the '
           'current source; does not decide the run-time behaviour itself.')

CLAIMED = {
    'C17': {
        'text': 'Static rules R17.1-R17.4: every os.chdir is paired with a finally-restore of a value read from '
                'os.getcwd() before the change (origin query + CFG dominance); only-notebook filter, symmetric '
                'None/null-file handling and side pairing of path/blob/ref; the loop iterates git\'s own diff with '
                'the path filter forwarded and prefixed exactly once; ref/path disambiguation total.' + _SUFFIX,
        'note': 'Trusted: GitPython\'s diff(), os.chdir/getcwd semantics, the analyser\'s name resolution (resolution '
                'rate printed in evidence). Agreement with git over all histories is not decided.',
        'technique': 'static analysis: CFG dominance + def-use origin query + who-may-call over os.chdir',
    },
}

NOT_APPLICABLE = {
    'C06': 'purely index-arithmetic guarantee (chunk boundaries, removerange splitting, descending application order); '
           'no sound structural clause beyond those decided under C05/C09, see DESIGN.md',
}
for _p in ['C%02d' % i for i in range(1, 21)]:
    if _p not in CLAIMED and _p not in NOT_APPLICABLE:
        NOT_APPLICABLE[_p] = 'check not built yet in this revision of /verif (planned, see DESIGN.md section 3)'

NOTES = ('All checks are static (family: static analysis); they parse /repo on every run and never import nbdime. '
         'Exit 2 + ANALYSIS-ERROR means an anchor vanished or the analyser failed -- not a verdict. '
         'known_findings.json lists genuine defects recorded rather than repaired, keyed by rule/function/construct.')
