"""Minimal TypeScript lexical scanner (no JS parser exists in this sandbox).

Restricted to lexical facts inside a named function / type alias: string literals, `x === 'lit'`
comparisons, string-literal unions, array-of-string literals, one regex literal.  Every extractor
raises AnalysisError if the named construct is not found.
"""
import re

from .core import AnalysisError

PUNCT3 = {'===', '!==', '...', '**=', '<<=', '>>=', '&&=', '||=', '??='}
PUNCT2 = {'==', '!=', '<=', '>=', '&&', '||', '=>', '++', '--', '+=', '-=', '*=', '/=', '??', '?.', '<<', '>>'}


class Tok:
    __slots__ = ('kind', 'text', 'line', 'value')

    def __init__(self, kind, text, line, value=None):
        self.kind, self.text, self.line, self.value = kind, text, line, value

    def __repr__(self):
        return '%s(%r)@%d' % (self.kind, self.text, self.line)


def tokenize(src, fname='<ts>'):
    toks = []
    i, n, line = 0, len(src), 1
    prev_sig = None
    while i < n:
        c = src[i]
        if c == '\n':
            line += 1
            i += 1
            continue
        if c in ' \t\r':
            i += 1
            continue
        if src.startswith('//', i):
            j = src.find('\n', i)
            i = n if j < 0 else j
            continue
        if src.startswith('/*', i):
            j = src.find('*/', i + 2)
            if j < 0:
                raise AnalysisError('%s: unterminated comment at line %d' % (fname, line))
            line += src.count('\n', i, j)
            i = j + 2
            continue
        if c in '\'"':
            j = i + 1
            buf = []
            while j < n and src[j] != c:
                if src[j] == '\\' and j + 1 < n:
                    esc = src[j + 1]
                    buf.append({'n': '\n', 'r': '\r', 't': '\t', '\\': '\\', "'": "'", '"': '"', '0': '\0'}.get(esc, esc))
                    j += 2
                    continue
                if src[j] == '\n':
                    raise AnalysisError('%s: unterminated string at line %d' % (fname, line))
                buf.append(src[j])
                j += 1
            toks.append(Tok('str', src[i:j + 1], line, ''.join(buf)))
            prev_sig = toks[-1]
            i = j + 1
            continue
        if c == '`':
            j = i + 1
            depth = 0
            while j < n and (src[j] != '`' or depth):
                if src[j] == '\\':
                    j += 2
                    continue
                if src.startswith('${', j):
                    depth += 1
                    j += 2
                    continue
                if src[j] == '}' and depth:
                    depth -= 1
                if src[j] == '\n':
                    line += 1
                j += 1
            toks.append(Tok('tmpl', src[i:j + 1], line))
            prev_sig = toks[-1]
            i = j + 1
            continue
        if c == '/':
            # regex literal if previous significant token cannot end an expression
            is_re = prev_sig is None or (prev_sig.kind == 'punct' and prev_sig.text not in (')', ']', '}')) or \
                (prev_sig.kind == 'id' and prev_sig.text in ('return', 'typeof', 'case', 'in', 'of'))
            if is_re:
                j = i + 1
                incls = False
                while j < n:
                    if src[j] == '\\':
                        j += 2
                        continue
                    if src[j] == '[':
                        incls = True
                    elif src[j] == ']':
                        incls = False
                    elif src[j] == '/' and not incls:
                        break
                    elif src[j] == '\n':
                        raise AnalysisError('%s: unterminated regex at line %d' % (fname, line))
                    j += 1
                body = src[i + 1:j]
                k = j + 1
                while k < n and src[k].isalpha():
                    k += 1
                toks.append(Tok('regex', src[i:k], line, (body, src[j + 1:k])))
                prev_sig = toks[-1]
                i = k
                continue
        m = re.compile(r'[A-Za-z_$][A-Za-z_0-9$]*').match(src, i)
        if m:
            toks.append(Tok('id', m.group(0), line))
            prev_sig = toks[-1]
            i = m.end()
            continue
        m = re.compile(r'\d[\d_]*(\.\d+)?([eE][+-]?\d+)?|0[xX][0-9a-fA-F]+').match(src, i)
        if m:
            toks.append(Tok('num', m.group(0), line))
            prev_sig = toks[-1]
            i = m.end()
            continue
        for L, table in ((3, PUNCT3), (2, PUNCT2)):
            if src[i:i + L] in table:
                toks.append(Tok('punct', src[i:i + L], line))
                prev_sig = toks[-1]
                i += L
                break
        else:
            toks.append(Tok('punct', c, line))
            prev_sig = toks[-1]
            i += 1
    return toks


class TsFile:
    def __init__(self, repo, relpath):
        self.relpath = relpath
        self.src = repo.text(relpath)
        self.toks = tokenize(self.src, relpath)

    def _match_brace(self, i):
        depth = 0
        for j in range(i, len(self.toks)):
            t = self.toks[j]
            if t.kind == 'punct' and t.text == '{':
                depth += 1
            elif t.kind == 'punct' and t.text == '}':
                depth -= 1
                if depth == 0:
                    return j
        raise AnalysisError('%s: unbalanced braces' % self.relpath)

    def function_body(self, name):
        """Tokens of the body of the LAST `function name(...) {...}` (overload signatures have no body)."""
        toks = self.toks
        found = None
        for i in range(len(toks) - 2):
            if toks[i].kind == 'id' and toks[i].text == 'function' and toks[i + 1].kind == 'id' and toks[i + 1].text == name:
                # skip parameter list
                j = i + 2
                depth = 0
                while j < len(toks):
                    if toks[j].kind == 'punct' and toks[j].text == '(':
                        depth += 1
                    elif toks[j].kind == 'punct' and toks[j].text == ')':
                        depth -= 1
                        if depth == 0:
                            break
                    j += 1
                # return type up to '{' or ';'
                k = j + 1
                angle = 0
                while k < len(toks) and not (toks[k].kind == 'punct' and toks[k].text in ('{', ';') and angle == 0):
                    if toks[k].kind == 'punct' and toks[k].text == '<':
                        angle += 1
                    if toks[k].kind == 'punct' and toks[k].text == '>':
                        angle -= 1
                    k += 1
                if k < len(toks) and toks[k].text == '{':
                    # object-literal return types `): { a: b } {` are not used in the analysed files
                    end = self._match_brace(k)
                    found = toks[k:end + 1]
        if found is None:
            raise AnalysisError('%s: function %s not found' % (self.relpath, name))
        return found

    def type_union(self, name):
        """String members of `type name = | 'a' | 'b';`"""
        toks = self.toks
        for i in range(len(toks) - 2):
            if toks[i].kind == 'id' and toks[i].text == 'type' and toks[i + 1].kind == 'id' and toks[i + 1].text == name \
                    and toks[i + 2].text == '=':
                out = []
                j = i + 3
                while j < len(toks) and toks[j].text != ';':
                    if toks[j].kind == 'str':
                        out.append(toks[j].value)
                    elif toks[j].kind == 'punct' and toks[j].text == '|':
                        pass
                    else:
                        raise AnalysisError('%s: type %s is not a pure string-literal union' % (self.relpath, name))
                    j += 1
                return out, toks[i].line
        raise AnalysisError('%s: type %s not found' % (self.relpath, name))

    @staticmethod
    def strings_in(toks):
        return [t.value for t in toks if t.kind == 'str']

    @staticmethod
    def eq_literals(toks, lhs_names=None):
        """[(lhs text, literal, line)] for `<lhs> === 'lit'` (lhs = identifier or a.b)."""
        out = []
        for i in range(1, len(toks) - 1):
            if toks[i].kind == 'punct' and toks[i].text in ('===', '=='):
                a, b = toks[i - 1], toks[i + 1]
                if b.kind == 'str' and a.kind == 'id':
                    lhs = a.text
                    if i >= 3 and toks[i - 2].text == '.' and toks[i - 3].kind == 'id':
                        lhs = toks[i - 3].text + '.' + lhs
                    if lhs_names is None or lhs in lhs_names:
                        out.append((lhs, b.value, b.line))
        return out

    @staticmethod
    def array_literals(toks):
        """String arrays `[ 'a', 'b', ... ]` (only strings and commas inside)."""
        out = []
        i = 0
        while i < len(toks):
            if toks[i].kind == 'punct' and toks[i].text == '[':
                j = i + 1
                vals = []
                ok = True
                while j < len(toks) and not (toks[j].kind == 'punct' and toks[j].text == ']'):
                    if toks[j].kind == 'str':
                        vals.append(toks[j].value)
                    elif toks[j].kind == 'punct' and toks[j].text == ',':
                        pass
                    else:
                        ok = False
                        break
                    j += 1
                if ok and vals:
                    out.append((vals, toks[i].line))
                    i = j
            i += 1
        return out

    @staticmethod
    def regexes(toks):
        return [(t.value[0], t.value[1], t.line) for t in toks if t.kind == 'regex']

    @staticmethod
    def has_throw(toks):
        return any(t.kind == 'id' and t.text == 'throw' for t in toks)

    @staticmethod
    def calls(toks):
        """identifiers directly followed by '('"""
        out = []
        for i in range(len(toks) - 1):
            if toks[i].kind == 'id' and toks[i + 1].kind == 'punct' and toks[i + 1].text == '(':
                out.append((toks[i].text, toks[i].line))
        return out
