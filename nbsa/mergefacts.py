"""Vocabulary tables of the merge/diff machinery, all re-derived from the source on every run."""
import ast

from .core import AnalysisError, dotted, walk_no_nested, FuncTypes
from .util import calls_in, local_defs, const_val, NOVAL, if_chain, ends_abruptly, compare_eq_const

DEC = 'nbdime.merging.decisions'
STR = 'nbdime.merging.strategies'
GEN = 'nbdime.merging.generic'
MNB = 'nbdime.merging.notebooks'


def diffop_consts(repo):
    """{'DiffOp.ADD': 'add', ...} from class DiffOp."""
    c = repo.cls('nbdime.diff_format:DiffOp')
    out = {}
    for st in c.body:
        if isinstance(st, ast.Assign) and isinstance(st.targets[0], ast.Name) and isinstance(st.value, ast.Constant):
            out['DiffOp.' + st.targets[0].id] = st.value.value
    if len(out) < 6:
        raise AnalysisError('DiffOp has fewer than 6 constants')
    return out


def builder_ops(repo, clsname):
    """OPS tuple of SequenceDiffBuilder / MappingDiffBuilder as op strings."""
    c = repo.cls('nbdime.diff_format:' + clsname)
    consts = diffop_consts(repo)
    for st in c.body:
        if isinstance(st, ast.Assign) and dotted(st.targets[0]) == 'OPS':
            return [consts[dotted(e)] for e in st.value.elts]
    raise AnalysisError('%s.OPS not found' % clsname)


def chunk_letters(repo):
    """From chunk_typename: op string -> (which, letter), which in {'a','p'}."""
    fn = repo.func('nbdime.merging.chunks:chunk_typename')
    consts = diffop_consts(repo)
    out = {}
    # the accumulator returned FIRST collects the insertion letters, the second the patch/removal letters (name independent)
    first = None
    for r in walk_no_nested(fn):
        if isinstance(r, ast.Return) and isinstance(r.value, ast.Tuple) and len(r.value.elts) == 2:
            e0 = r.value.elts[0]
            if isinstance(e0, ast.Name):
                first = e0.id
            elif isinstance(e0, ast.Call) and isinstance(e0.func, ast.Attribute) and e0.func.attr == 'join' and len(e0.args) == 1 and isinstance(e0.args[0], ast.Name):
                first = e0.args[0].id          # letters collected in a list and joined
    if first is None:
        raise AnalysisError('chunk_typename: `return <a-letters>, <p-letters>` not found')
    for n in walk_no_nested(fn):
        if isinstance(n, ast.If):
            arms, _ = if_chain(n)
            for test, body, node in arms:
                if isinstance(test, ast.Compare) and isinstance(test.ops[0], ast.Eq):
                    op = consts.get(dotted(test.comparators[0]))
                    for st in body:
                        if isinstance(st, ast.AugAssign) and isinstance(st.value, ast.Constant):
                            which = 'a' if dotted(st.target) == first else 'p'
                            out[op] = (which, st.value.value)
                        elif isinstance(st, ast.Expr) and isinstance(st.value, ast.Call) and isinstance(st.value.func, ast.Attribute) and st.value.func.attr == 'append' and \
                                len(st.value.args) == 1 and isinstance(st.value.args[0], ast.Constant):
                            which = 'a' if dotted(st.value.func.value) == first else 'p'
                            out[op] = (which, st.value.args[0].value)
            break
    if len(out) < 6:
        raise AnalysisError('chunk_typename table has %d entries' % len(out))
    return out


def strategy_constants(repo):
    v = repo.module_assign(MNB, 'generic_conflict_strategies')
    out = [const_val(e) for e in v.elts]
    if len(out) < 10:
        raise AnalysisError('generic_conflict_strategies shrank')
    return out


def cli_strategies(repo, cg):
    """merge / input / output strategy domains of the CLI (tuples, with + concatenation folded)."""
    from .consteval import Evaluator, UNKNOWN
    m = repo.mod(MNB)
    ev = Evaluator()
    out = {}
    for name in ('cli_conflict_strategies', 'cli_conflict_strategies_input', 'cli_conflict_strategies_output'):
        v = ev.ev(repo.module_assign(MNB, name))
        if v is UNKNOWN:
            raise AnalysisError('cannot evaluate %s' % name)
        ev.env[name] = v
        out[name] = list(v)
    return out


def emitted_actions(repo, cg):
    """Set of action strings the Python merger can put into a decision: {action: [(where, node)]}."""
    out = {}

    def add(a, where, node):
        out.setdefault(a, []).append((where, node))
    strat = strategy_constants(repo)
    for fid, fn in repo.functions.items():
        if not fid.startswith('nbdime.merging.'):
            continue
        defs = local_defs(fn)

        def consts_of(expr, seen=()):
            if isinstance(expr, ast.Constant) and isinstance(expr.value, str):
                return [expr.value]
            if isinstance(expr, ast.Name) and expr.id in defs and expr.id not in seen:
                r = []
                for v, k, s in defs[expr.id]:
                    r.extend(consts_of(v, seen + (expr.id,)))
                return r
            if isinstance(expr, ast.Call) and isinstance(expr.func, ast.Attribute) and expr.func.attr == 'replace' and \
                    len(expr.args) == 2 and all(isinstance(a, ast.Constant) for a in expr.args):
                # strategy.replace("use-", "") under a startswith("use-") guard -> image over the strategy constants
                pre, rep = expr.args[0].value, expr.args[1].value
                return [s.replace(pre, rep) for s in strat if s.startswith(pre)]
            if isinstance(expr, ast.IfExp):
                return consts_of(expr.body, seen) + consts_of(expr.orelse, seen)
            return []
        for n in walk_no_nested(fn):
            if isinstance(n, ast.Call) and isinstance(n.func, ast.Attribute) and n.func.attr == 'add_decision':
                val = None
                for k in n.keywords:
                    if k.arg == 'action':
                        val = k.value
                if val is None and len(n.args) > 1:
                    val = n.args[1]
                if val is not None:
                    for a in consts_of(val):
                        add(a, fid, n)
            if isinstance(n, ast.Assign):
                for t in n.targets:
                    if isinstance(t, ast.Attribute) and t.attr == 'action':
                        for a in consts_of(n.value):
                            add(a, fid, n)
            if isinstance(n, ast.Call) and (dotted(n.func) or '').endswith('MergeDecision'):
                for k in n.keywords:
                    if k.arg == 'action':
                        for a in consts_of(k.value):
                            add(a, fid, n)
    if len(out) < 6:
        raise AnalysisError('emitted action extraction found only %s' % sorted(out))
    return out


def handled_actions(repo):
    """Actions with a non-raising arm in resolve_action, and whether the final else raises."""
    fn = repo.func(DEC + ':resolve_action')
    top = [s for s in fn.body if isinstance(s, ast.If)]
    if not top:
        raise AnalysisError('resolve_action has no if-chain')
    arms, orelse = if_chain(top[0])
    handled = {}
    for test, body, node in arms:
        r = compare_eq_const(test)
        if r is None:
            continue
        d, lits, pos = r
        if pos and ends_abruptly(body) != 'raise':
            for l in lits:
                handled[l] = node
    return handled, ends_abruptly(orelse) == 'raise'
