"""Local/remote mirror symmetry of dispatch chains (rule R05.3).

sigma swaps roles: mirrored variable names (ld<->rd, d0<->d1, local_diff<->remote_diff, lv<->rv ...),
mirrored method names (local<->remote, local_then_remote<->remote_then_local), mirrored string
constants ("X/Y" -> "Y/X", use-local<->use-remote, --ours<->--theirs, LOCAL<->REMOTE), and the
positions of role-positional arguments of package callees whose parameters come in mirrored pairs.

A top-level chain is *closed* when the canonical summary of sigma(arm) equals the summary of some
arm of the same chain (self-mirror or a mirror partner).  Canonicalisation removes what cannot
matter for role symmetry: asserts, operand order of ==/!=/and/or, element order of constant
collections, statement order inside an arm (multiset), arm order of nested chains (set of arms),
names made equal by an enclosing ``==`` test or by falling through a ``!=`` arm, and an if/else whose
two bodies are mirror images of each other (the else carries no test to compare).
"""
import ast
import copy
import re

from .core import dotted
from .util import if_chain

CONST_SWAPS = [('use-local', 'use-remote'), ('--ours', '--theirs'), ('local_then_remote', 'remote_then_local'),
               ('LOCAL', 'REMOTE'), ('local', 'remote'), ('Local', 'Remote')]
METHOD_SWAPS = {'local': 'remote', 'remote': 'local', 'local_then_remote': 'remote_then_local',
                'remote_then_local': 'local_then_remote'}
EXEMPT_TEST_CONSTS = {'union'}
EQUALITY_HELPERS = {'strict_equal', 'compare_strict'}      # two-argument, symmetric, type-strict ==
CHUNK_RE = re.compile(r'^[APRaprc]*/[APRaprc]*$')


MEMBERSHIP_PARAMS = {}     # function name -> positional indexes of parameters used only as the right operand of in / not in


def find_membership_params(repo, prefix='nbdime.merging.'):
    """Fill MEMBERSHIP_PARAMS from the module-level functions of the package: parameters whose every use is `x in <param>` / `x not in <param>`."""
    MEMBERSHIP_PARAMS.clear()
    for fid, fn in repo.functions.items():
        if not fid.startswith(prefix) or '.' in fid.split(':', 1)[1]:
            continue
        for i, a in enumerate(fn.args.args):
            uses = [n for n in ast.walk(fn) if isinstance(n, ast.Name) and n.id == a.arg and isinstance(n.ctx, ast.Load)]
            if not uses:
                continue
            ok = True
            for u in uses:
                par = repo.parent(u)
                if not (isinstance(par, ast.Compare) and len(par.ops) == 1 and isinstance(par.ops[0], (ast.In, ast.NotIn)) and par.comparators[0] is u):
                    ok = False
            if ok:
                MEMBERSHIP_PARAMS.setdefault(fid.split(':', 1)[1], set()).add(i)


def mirror_name(n):
    """Candidate mirrored identifier, or None."""
    if 'local' in n:
        return n.replace('local', '\0').replace('remote', 'local').replace('\0', 'remote')
    if 'remote' in n:
        return n.replace('remote', 'local')
    if n.endswith('0'):
        return n[:-1] + '1'
    if n.endswith('1'):
        return n[:-1] + '0'
    if len(n) >= 1 and n[0] == 'l':
        return 'r' + n[1:]
    if len(n) >= 1 and n[0] == 'r':
        return 'l' + n[1:]
    return None


def name_pairs(func):
    names = {n.id for n in ast.walk(func) if isinstance(n, ast.Name)} | \
        {a.arg for a in func.args.args + func.args.kwonlyargs}
    pairs = {}
    for n in names:
        m = mirror_name(n)
        if m and m in names and m != n:
            pairs[n] = m
    return pairs


def swap_const(s):
    if CHUNK_RE.match(s) and s != '/':
        a, b = s.split('/')
        return b + '/' + a
    for a, b in CONST_SWAPS:
        if a in s or b in s:
            return s.replace(a, '\0').replace(b, a).replace('\0', b)
    return s


class Sigma(ast.NodeTransformer):
    def __init__(self, pairs, swap_positions):
        self.pairs = pairs
        self.swap_positions = swap_positions     # callable(call node) -> (i, j) or None

    def visit_Name(self, node):
        if node.id in self.pairs:
            return ast.copy_location(ast.Name(id=self.pairs[node.id], ctx=node.ctx), node)
        return node

    def visit_Constant(self, node):
        if isinstance(node.value, str):
            return ast.copy_location(ast.Constant(value=swap_const(node.value)), node)
        return node

    def visit_Call(self, node):
        pos = self.swap_positions(node)
        self.generic_visit(node)
        if isinstance(node.func, ast.Attribute) and node.func.attr in METHOD_SWAPS and \
                dotted(node.func.value) in ('decisions', 'self'):
            node.func.attr = METHOD_SWAPS[node.func.attr]
        if pos:
            i, j = pos
            if len(node.args) > max(i, j):
                node.args[i], node.args[j] = node.args[j], node.args[i]
            kws = {k.arg: k for k in node.keywords if k.arg}
            done = set()
            for name, k in kws.items():
                m = mirror_name(name)
                if m in kws and name not in done:
                    k.value, kws[m].value = kws[m].value, k.value
                    done |= {name, m}
        return node


class Canon(ast.NodeTransformer):
    """Order-insensitive canonical form of expressions."""

    def __init__(self, unify=None):
        self.unify = unify or {}

    def visit_Attribute(self, node):
        self.generic_visit(node)
        d = dotted(node)
        if d in self.unify:
            return ast.parse(self.unify[d], mode='eval').body
        return node

    def visit_Name(self, node):
        if node.id in self.unify:
            return ast.copy_location(ast.Name(id=self.unify[node.id], ctx=node.ctx), node)
        # temporaries introduced by the helper inliner (inline.py): `_res__<helper>`, `<name>__<helper>` -- the two sides' copies differ only in these
        if '__' in node.id.strip('_'):
            base = node.id
            while '__' in base.strip('_'):
                head, _, tail = base.rpartition('__')
                if not head.strip('_'):
                    break
                base = head
            if base.startswith(('_res', '_ret')):
                base = '_tmp'
            return ast.copy_location(ast.Name(id=base, ctx=node.ctx), node)
        return node

    def visit_Call(self, node):
        if isinstance(node.func, ast.Name) and node.func.id in EQUALITY_HELPERS and len(node.args) == 2 and not node.keywords:
            return self.visit(ast.Compare(left=node.args[0], ops=[ast.Eq()], comparators=[node.args[1]]))
        self.generic_visit(node)
        # a literal collection handed to a parameter that the callee only ever tests membership in is a set: order does not matter
        if isinstance(node.func, ast.Name) and node.func.id in MEMBERSHIP_PARAMS:
            for i in MEMBERSHIP_PARAMS[node.func.id]:
                if i < len(node.args) and isinstance(node.args[i], (ast.Tuple, ast.List, ast.Set)):
                    node.args[i].elts = sorted(node.args[i].elts, key=ast.unparse)
        # all(f(t) for t in (a, b, c)) / any(...): the order of the literal collection iterated does not matter
        if isinstance(node.func, ast.Name) and node.func.id in ('all', 'any') and len(node.args) == 1 and isinstance(node.args[0], ast.GeneratorExp) and \
                len(node.args[0].generators) == 1 and isinstance(node.args[0].generators[0].iter, (ast.Tuple, ast.List, ast.Set)):
            it = node.args[0].generators[0].iter
            it.elts = sorted(it.elts, key=ast.unparse)
        return node

    def visit_Compare(self, node):
        self.generic_visit(node)
        if len(node.ops) == 1 and isinstance(node.ops[0], (ast.Eq, ast.NotEq, ast.Is, ast.IsNot)):
            l, r = node.left, node.comparators[0]
            if ast.unparse(l) > ast.unparse(r):
                node.left, node.comparators = r, [l]
        if len(node.ops) == 1 and isinstance(node.ops[0], (ast.In, ast.NotIn)) and \
                isinstance(node.comparators[0], (ast.Tuple, ast.List, ast.Set)):
            c = node.comparators[0]
            if all(isinstance(e, ast.Constant) for e in c.elts):
                elts = sorted(c.elts, key=lambda e: repr(e.value))
                if len(elts) == 1:
                    return ast.Compare(left=node.left, ops=[ast.Eq() if isinstance(node.ops[0], ast.In) else ast.NotEq()],
                                       comparators=[elts[0]])
                node.comparators = [ast.Set(elts=elts)]
        return node

    def visit_BoolOp(self, node):
        self.generic_visit(node)
        vals = []
        seen = set()
        for v in sorted(node.values, key=ast.unparse):
            u = ast.unparse(v)
            if u not in seen:
                seen.add(u)
                vals.append(v)
        if len(vals) == 1:
            return vals[0]
        node.values = vals
        return node


def canon_stmt(st, unify):
    st = copy.deepcopy(st)
    if isinstance(st, ast.Assign) and len(st.targets) == 1 and isinstance(st.targets[0], ast.Tuple) and \
            isinstance(st.value, ast.Tuple) and len(st.targets[0].elts) == len(st.value.elts):
        pairs = sorted(zip(st.targets[0].elts, st.value.elts), key=lambda p: ast.unparse(p[0]))
        st.targets[0].elts = [p[0] for p in pairs]
        st.value.elts = [p[1] for p in pairs]
    st = Canon(unify).visit(st)
    ast.fix_missing_locations(st)
    return ' '.join(ast.unparse(st).split())


def canon_test(test, unify):
    return canon_stmt(ast.Expr(value=test), unify)


class Mirror:
    def __init__(self, func, swap_positions):
        self.pairs = name_pairs(func)
        self.swap_positions = swap_positions

    def sigma(self, nodes):
        sg = Sigma(self.pairs, self.swap_positions)
        out = [sg.visit(copy.deepcopy(n)) for n in nodes]
        for x in out:
            ast.fix_missing_locations(x)
        return out

    # ---- summaries -------------------------------------------------------------------
    def body(self, stmts, unify):
        out = []
        for st in stmts:
            if isinstance(st, (ast.Assert, ast.Pass)):
                continue
            if isinstance(st, ast.Expr) and isinstance(st.value, ast.Constant):
                continue
            if isinstance(st, ast.If):
                s = self.chain(st, unify)
                if s:
                    out.append(repr(s))
                continue
            out.append(canon_stmt(st, unify))
        return tuple(sorted(out))

    def arms(self, ifnode, unify_in):
        """[(test_text, body_summary, test_node, body, node, unify_for_test, unify_for_body)]"""
        arms, orelse = if_chain(ifnode)
        unify = dict(unify_in)
        out = []
        for test, body, node in arms:
            if isinstance(test, ast.Call) and isinstance(test.func, ast.Name) and test.func.id in EQUALITY_HELPERS and len(test.args) == 2:
                test = ast.copy_location(ast.Compare(left=test.args[0], ops=[ast.Eq()], comparators=[test.args[1]]), test)
            if any(isinstance(c, ast.Constant) and c.value in EXEMPT_TEST_CONSTS for c in ast.walk(test)):
                continue        # named exemption: local-before-remote at two-sided insertions is intentional
            tuni = dict(unify)
            buni = dict(unify)
            if isinstance(test, ast.Compare) and len(test.ops) == 1 and isinstance(test.ops[0], ast.Eq):
                l, r = dotted(test.left), dotted(test.comparators[0])
                if l and r:
                    a, b = sorted([l, r])
                    buni[b] = a
            out.append((canon_test(test, tuni), self.body(body, buni), test, body, node, tuni, buni))
            if isinstance(test, ast.Compare) and len(test.ops) == 1 and isinstance(test.ops[0], ast.NotEq):
                l, r = dotted(test.left), dotted(test.comparators[0])
                if l and r:
                    a, b = sorted([l, r])
                    unify[b] = a
        if orelse:
            out.append(('<else>', self.body(orelse, unify), None, orelse, ifnode, dict(unify), dict(unify)))
        return out

    def chain(self, ifnode, unify):
        """Order-insensitive summary of a nested chain ('' when it only holds asserts)."""
        arms = self.arms(ifnode, unify)
        if all(not a[1] for a in arms):
            return ''
        if len(arms) == 2 and arms[1][0] == '<else>':
            # if/else whose bodies are mirror images: the pair is symmetric as a whole
            m = self.body(self.sigma(arms[0][3]), arms[0][6])
            if m == arms[1][1]:
                return ('<if/else mirror pair>', tuple(sorted([arms[0][1], arms[1][1]])))
        return tuple(sorted((a[0], a[1]) for a in arms))

    def mirror_of(self, arm):
        test_text, bsum, test, body, node, tuni, buni = arm
        mt = canon_test(self.sigma([test])[0], tuni) if test is not None else '<else>'
        mb = self.body(self.sigma(body), buni)
        return mt, mb


def check_chain(ifnode, func, swap_positions, report):
    """Closure check of one top-level chain.  report(ok, arm_test_text, detail, node)."""
    mr = Mirror(func, swap_positions)
    arms = mr.arms(ifnode, {})
    keys = {(a[0], a[1]) for a in arms}
    for a in arms:
        mt, mb = mr.mirror_of(a)
        ok = (mt, mb) in keys
        detail = ''
        if not ok:
            # diagnose: which statements of the mirror image have no counterpart in the closest arm
            cands = [k for k in keys if k[0] == mt]
            if cands:
                missing = [s for s in mb if s not in cands[0][1]]
                detail = 'arm `if %s` exists but differs in: %s' % (mt, ' || '.join(x[:160] for x in missing[:3]))
            else:
                detail = 'there is no arm `if %s`' % mt
        report(ok, a[0], detail, a[4])
