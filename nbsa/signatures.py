"""Call-signature compatibility (a compile-fail-like rule for a language without a compiler).

Every call whose callee the resolver determines *exactly* (a plain name, a module attribute, self.method, Class(...)) must
bind: not more positional arguments than parameters, every parameter without default supplied, no unknown keyword.  A
signature change that misses one caller on a rarely executed arm (an error path, a particular strategy, a renderer that
is only used when a tool is absent) raises TypeError only when that arm runs -- which no test may do.  Calls through
unknown receivers (name-heuristic dispatch) and calls with *args/**kwargs are not judged.
"""
import ast


def call_compat(ctx, rule, caller_prefixes, consequence):
    repo, cg = ctx.repo, ctx.cg
    per_mod = {}
    for caller, sites in sorted(cg.sites.items()):
        mod = caller.split(':')[0]
        if not any(mod == p or mod.startswith(p) for p in caller_prefixes):
            continue
        fn = repo.functions.get(caller)
        if fn is None:
            continue
        for call, _targets in sites:
            ts = [t for t in cg.resolve(call.func, fn) if t[0] == 'func']
            cls = [t for t in cg.resolve(call.func, fn) if t[0] == 'class']
            if len(ts) != 1 or cls or ts[0][1] not in repo.functions:
                continue
            fid = ts[0][1]
            callee = repo.functions[fid]
            a = callee.args
            allpos = [x.arg for x in a.posonlyargs + a.args]
            pos = list(allpos)
            decos = ' '.join(ast.unparse(d) for d in callee.decorator_list)
            is_method = isinstance(repo.parent(callee), ast.ClassDef) and 'staticmethod' not in decos
            if 'property' in decos:
                continue
            if is_method:
                if isinstance(call.func, ast.Attribute):
                    pos = pos[1:]
                else:
                    continue
            if any(isinstance(x, ast.Starred) for x in call.args) or any(k.arg is None for k in call.keywords):
                continue
            nd = len(a.defaults)
            req_all = set(allpos[:len(allpos) - nd] if nd else allpos)
            required = [p for p in pos if p in req_all]
            kwonly = [x.arg for x in a.kwonlyargs]
            kwreq = [x.arg for x, d in zip(a.kwonlyargs, a.kw_defaults) if d is None]
            supplied = set(pos[:len(call.args)]) | {k.arg for k in call.keywords}
            probs = []
            if len(call.args) > len(pos) and a.vararg is None:
                probs.append('%d positional argument(s) for %d parameter(s)' % (len(call.args), len(pos)))
            for k in call.keywords:
                if k.arg not in pos and k.arg not in kwonly and a.kwarg is None:
                    probs.append('unknown keyword %s' % k.arg)
                if k.arg in pos[:len(call.args)]:
                    probs.append('%s given twice' % k.arg)
            for r in required + kwreq:
                if r not in supplied:
                    probs.append('required parameter %s not supplied' % r)
            c = per_mod.setdefault(mod, [0, 0])
            c[0] += 1
            if probs:
                c[1] += 1
                ctx.inst(rule, caller, repo.norm(call)[:140], False,
                         'this call does not match the signature of %s (%s): TypeError when this statement runs -- %s' % (fid, '; '.join(probs), consequence), call)
    for mod, (n, bad) in sorted(per_mod.items()):
        ctx.inst(rule, mod, '%d exactly resolved call(s) bound against their callee\'s signature' % n, True,
                 'all bind' if not bad else '%d do not bind (reported separately)' % bad, None, nontrivial=n > 0)
    return per_mod
