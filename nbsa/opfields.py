"""Field access on diff entries agrees with the op tests that guard it.

A diff entry carries, besides `op` and `key`, exactly the fields of its op (addrange: valuelist; removerange: length;
patch: diff; add/replace: value; remove: none) -- the table is read from the op_* constructors.  Wherever code has
narrowed the op of an entry by tests (if/elif chains on `e.op`, on an alias `op = e.op`, asserts, comprehension filters,
conjuncts of the same `and`), every field read under those tests must exist for EVERY op that is still possible there:
otherwise the arm raises AttributeError/KeyError for the op kind the author forgot.  Sites with no op test at all rely
on an invariant of their caller and are not judged (counted as such in the evidence).
"""
import ast

from .core import dotted, walk_no_nested
from .cfg import CFG, cond_guards
from . import mergefacts as mf

MODULES = ('nbdime.merging.', 'nbdime.patching', 'nbdime.diff_utils', 'nbdime.prettyprint', 'nbdime.diff_format', 'nbdime.diffing.')


def field_table(repo):
    """op constant -> set of fields, from the op_* constructors of diff_format."""
    consts = mf.diffop_consts(repo)
    table = {}
    for fid, fn in repo.functions.items():
        if not fid.startswith('nbdime.diff_format:op_'):
            continue
        for c in ast.walk(fn):
            if isinstance(c, ast.Call) and isinstance(c.func, ast.Name) and c.func.id == 'DiffEntry':
                kw = {k.arg: k.value for k in c.keywords}
                op = kw.get('op')
                opv = consts.get(dotted(op)) if op is not None and dotted(op) else (op.value if isinstance(op, ast.Constant) else None)
                if opv:
                    table[opv] = {k for k in kw if k not in ('op', 'key')}
    return table, consts


def _const_ops(node, consts, repo, modname):
    """set of op constants denoted by an expression (constant, DiffOp.X, tuple of those, module-level tuple name)"""
    elts = node.elts if isinstance(node, (ast.Tuple, ast.List, ast.Set)) else [node]
    out = set()
    for e in elts:
        d = dotted(e)
        if d in consts:
            out.add(consts[d])
        elif isinstance(e, ast.Constant) and isinstance(e.value, str):
            out.add(e.value)
        elif isinstance(e, ast.Name):
            v = repo.module_assign(modname, e.id) if hasattr(repo, 'module_assign') else None
            if v is None:
                return None
            sub = _const_ops(v, consts, repo, modname)
            if sub is None:
                return None
            out |= sub
        else:
            return None
    return out


def check_op_fields(ctx, rule, module_prefixes=MODULES):
    repo = ctx.repo
    table, consts = field_table(repo)
    if len(table) < 6:
        from .core import AnalysisError
        raise AnalysisError('op_* constructors: field table incomplete (%s)' % sorted(table))
    ALL = set(table)
    field_ops = {}
    for op, fs in table.items():
        for f in fs:
            field_ops.setdefault(f, set()).add(op)
    judged = unjudged = 0
    for fid, fn in sorted(repo.functions.items()):
        mod = fid.split(':')[0]
        if not any(mod == p or mod.startswith(p) for p in module_prefixes):
            continue
        g = None
        # aliases: name = X.op (single definition)
        alias = {}
        counts = {}
        for n in walk_no_nested(fn):
            if isinstance(n, ast.Assign) and len(n.targets) == 1 and isinstance(n.targets[0], ast.Name):
                counts[n.targets[0].id] = counts.get(n.targets[0].id, 0) + 1
                if isinstance(n.value, ast.Attribute) and n.value.attr == 'op':
                    alias[n.targets[0].id] = ast.unparse(n.value.value)
        alias = {k: v for k, v in alias.items() if counts.get(k) == 1}
        for n in walk_no_nested(fn):
            if not (isinstance(n, ast.Attribute) and n.attr in field_ops and isinstance(n.ctx, ast.Load)):
                continue
            base = ast.unparse(n.value)
            st = repo.stmt_of(n)
            if st is None:
                continue
            if g is None:
                g = CFG(fn)
            tests = list(cond_guards(g, st))
            p, child = repo.parent(n), n
            while p is not None and not isinstance(p, ast.stmt):
                if isinstance(p, ast.IfExp):
                    if child is p.body:
                        tests.append((p.test, True))
                    elif child is p.orelse:
                        tests.append((p.test, False))
                if isinstance(p, ast.BoolOp) and isinstance(p.op, ast.And):
                    for v in p.values:
                        if v is child:
                            break
                        tests.append((v, True))
                if isinstance(p, (ast.ListComp, ast.GeneratorExp, ast.SetComp, ast.DictComp)):
                    for gen in p.generators:
                        for c in gen.ifs:
                            tests.append((c, True))
                child, p = p, repo.parent(p)
            # asserts earlier in the same block
            blk = None
            par = repo.parent(st)
            for field in ('body', 'orelse', 'finalbody'):
                b = getattr(par, field, None)
                if isinstance(b, list) and st in b:
                    blk = b
            if blk is not None:
                for s2 in blk[:blk.index(st)]:
                    if isinstance(s2, ast.Assert):
                        tests.append((s2.test, True))
            poss = set(ALL)
            guarded = False
            # X.op == Y.op established by a guard: tests on either apply to both
            same = {base}
            for t, pol in tests:
                if isinstance(t, ast.Compare) and len(t.ops) == 1 and isinstance(t.left, ast.Attribute) and t.left.attr == 'op' and \
                        isinstance(t.comparators[0], ast.Attribute) and t.comparators[0].attr == 'op':
                    eq = isinstance(t.ops[0], ast.Eq) == pol if isinstance(t.ops[0], (ast.Eq, ast.NotEq)) else False
                    if eq:
                        a, b = ast.unparse(t.left.value), ast.unparse(t.comparators[0].value)
                        if a in same or b in same:
                            same |= {a, b}

            def apply(c, pol):
                nonlocal poss, guarded
                if isinstance(c, ast.BoolOp) and isinstance(c.op, ast.And) and pol:
                    for v in c.values:
                        apply(v, True)
                    return
                if isinstance(c, ast.BoolOp) and isinstance(c.op, ast.Or) and not pol:
                    for v in c.values:
                        apply(v, False)
                    return
                if isinstance(c, ast.UnaryOp) and isinstance(c.op, ast.Not):
                    apply(c.operand, not pol)
                    return
                if not (isinstance(c, ast.Compare) and len(c.ops) == 1):
                    return
                left = ast.unparse(c.left)
                is_op = any(left == b_ + '.op' for b_ in same) or (isinstance(c.left, ast.Name) and alias.get(c.left.id) in same)
                right = c.comparators[0]
                if not is_op:
                    # DiffOp.X == e.op
                    r = ast.unparse(right)
                    if any(r == b_ + '.op' for b_ in same) or (isinstance(right, ast.Name) and alias.get(right.id) in same):
                        right = c.left
                        is_op = True
                if not is_op:
                    return
                vals = _const_ops(right, consts, repo, mod)
                if vals is None:
                    return
                pos = isinstance(c.ops[0], (ast.Eq, ast.In, ast.Is))
                neg = isinstance(c.ops[0], (ast.NotEq, ast.NotIn, ast.IsNot))
                if not (pos or neg):
                    return
                guarded = True
                if pos == pol:
                    poss &= vals
                else:
                    poss -= vals
            for t, pol in tests:
                apply(t, pol)
            if not guarded:
                unjudged += 1
                continue
            judged += 1
            ok = poss <= field_ops[n.attr]
            missing = sorted(poss - field_ops[n.attr])
            ctx.inst(rule, fid, '%s  [ops possible here: %s]' % (repo.norm(n), sorted(poss)), ok,
                     'every op that can reach this read carries the field' if ok else
                     'entries with op %s can reach this read but carry no `%s` field (they carry %s): AttributeError for such an entry' % (
                         missing, n.attr, {m: sorted(table.get(m, ())) for m in missing}), n)
    ctx.extra['op_field_reads'] = {'judged': judged, 'no_op_test_in_scope': unjudged}
    return judged
