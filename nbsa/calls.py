"""Name resolution and whole-package call graph.

Targets are tuples:
  ('func', fid)      a function/method defined in the package
  ('class', cid)     a class defined in the package (call == construct; edge to __init__ if defined)
  ('module', name)   a package module
  ('ext', dotted)    something outside the package (stdlib / third party), dotted as imported
  ('value', node)    a module-level non-callable value (assignment) -- carried for table lookups

Over-approximations (all add edges, none removes one):
  * attribute call on an unknown receiver -> every package method with that name
  * call through a parameter / through a local bound to ``X[...]`` -> the functions that
    flow into that parameter / are stored in that table (fixpoint over call sites)
"""
import ast

from .core import FuncTypes, dotted, walk_no_nested


class Resolver:
    def __init__(self, repo):
        self.repo = repo
        self._export_cache = {}
        self.methods_by_name = {}
        for cid, c in repo.classes.items():
            for st in c.body:
                if isinstance(st, FuncTypes):
                    self.methods_by_name.setdefault(st.name, []).append(repo.fid_of(st))

    # -------------------------------------------------------------- dotted names
    def resolve_dotted(self, name, depth=0):
        """Resolve an absolute dotted name to a target tuple (following re-exports/aliases)."""
        if depth > 12:
            return ('ext', name)
        repo = self.repo
        if name in repo.modules:
            return ('module', name)
        if '.' not in name:
            return ('ext', name)
        head, attr = name.rsplit('.', 1)
        base = self.resolve_dotted(head, depth + 1)
        return self.attr_of(base, attr, depth + 1, name)

    def attr_of(self, base, attr, depth=0, orig=None):
        repo = self.repo
        kind, val = base
        if kind == 'module':
            m = repo.modules[val]
            sub = val + '.' + attr
            if attr in m.defs:
                return ('func', '%s:%s' % (val, attr))
            if attr in m.classes:
                return ('class', '%s:%s' % (val, attr))
            if attr in m.imports:
                return self.resolve_dotted(m.imports[attr], depth + 1)
            if attr in m.assigns:
                v = m.assigns[attr][-1]
                t = self.resolve_expr_modlevel(m, v, depth + 1)
                if t is not None and t[0] in ('func', 'class', 'ext', 'module'):
                    return t
                return ('value', (m.name, attr))
            if sub in repo.modules:
                return ('module', sub)
            return ('ext', sub)
        if kind == 'class':
            c = repo.classes[val]
            for cc in self.mro(val):
                for st in repo.classes[cc].body:
                    if isinstance(st, FuncTypes) and st.name == attr:
                        return ('func', repo.fid_of(st))
            return ('ext', val + '.' + attr)
        if kind == 'ext':
            return ('ext', val + '.' + attr)
        return ('ext', (orig or attr))

    def resolve_expr_modlevel(self, m, expr, depth=0):
        if isinstance(expr, ast.Name):
            return self.lookup_module_name(m, expr.id, depth)
        if isinstance(expr, ast.Attribute):
            b = self.resolve_expr_modlevel(m, expr.value, depth)
            if b is None:
                return None
            return self.attr_of(b, expr.attr, depth)
        return None

    def lookup_module_name(self, m, name, depth=0):
        if name in m.defs:
            return ('func', '%s:%s' % (m.name, name))
        if name in m.classes:
            return ('class', '%s:%s' % (m.name, name))
        if name in m.imports:
            return self.resolve_dotted(m.imports[name], depth + 1)
        if name in m.assigns:
            v = m.assigns[name][-1]
            t = self.resolve_expr_modlevel(m, v, depth + 1) if depth < 12 else None
            if t is not None and t[0] in ('func', 'class', 'ext', 'module'):
                return t
            return ('value', (m.name, name))
        return None

    # -------------------------------------------------------------- classes
    def bases(self, cid):
        c = self.repo.classes[cid]
        m = self.repo.mod_of(c)
        out = []
        for b in c.bases:
            t = self.resolve_expr_modlevel(m, b)
            if t and t[0] == 'class':
                out.append(t[1])
            else:
                out.append('ext:' + (dotted(b) or ast.unparse(b)))
        return out

    def mro(self, cid):
        """C3 linearisation over package classes (external bases appear as 'ext:...')."""
        def lin(c):
            if c.startswith('ext:'):
                return [c]
            bs = self.bases(c)
            seqs = [lin(b) for b in bs] + [list(bs)]
            res = [c]
            while True:
                seqs = [s for s in seqs if s]
                if not seqs:
                    return res
                for s in seqs:
                    cand = s[0]
                    if not any(cand in t[1:] for t in seqs):
                        break
                else:
                    raise ValueError('inconsistent MRO for %s' % c)
                res.append(cand)
                for s in seqs:
                    if s and s[0] == cand:
                        del s[0]
        return [c for c in lin(cid) if not c.startswith('ext:')]

    def mro_full(self, cid):
        def lin(c):
            if c.startswith('ext:'):
                return [c]
            bs = self.bases(c)
            seqs = [lin(b) for b in bs] + [list(bs)]
            res = [c]
            while True:
                seqs = [s for s in seqs if s]
                if not seqs:
                    return res
                for s in seqs:
                    cand = s[0]
                    if not any(cand in t[1:] for t in seqs):
                        break
                else:
                    raise ValueError('inconsistent MRO for %s' % c)
                res.append(cand)
                for s in seqs:
                    if s and s[0] == cand:
                        del s[0]
        return lin(cid)

    # -------------------------------------------------------------- function scope
    def scope_info(self, func):
        """Local imports and simple local aliases of a function (not descending into nested defs)."""
        repo = self.repo
        m = repo.mod_of(func)
        imports, assigns, nested = {}, {}, {}
        for n in walk_no_nested(func):
            if n is func:
                continue
            if isinstance(n, ast.Import):
                for a in n.names:
                    if a.asname:
                        imports[a.asname] = a.name
                    else:
                        imports[a.name.split('.')[0]] = a.name.split('.')[0]
            elif isinstance(n, ast.ImportFrom):
                base = repo.resolve_from(m, n)
                for a in n.names:
                    imports.setdefault(a.asname or a.name, [])
                    if not isinstance(imports[a.asname or a.name], list):
                        imports[a.asname or a.name] = [imports[a.asname or a.name]]
                    imports[a.asname or a.name].append((base + '.' + a.name) if base else a.name)
            elif isinstance(n, ast.Assign):
                for t in n.targets:
                    if isinstance(t, ast.Name):
                        assigns.setdefault(t.id, []).append(n.value)
                    elif isinstance(t, ast.Tuple) and isinstance(n.value, ast.Tuple) and \
                            len(t.elts) == len(n.value.elts):
                        for te, ve in zip(t.elts, n.value.elts):
                            if isinstance(te, ast.Name):
                                assigns.setdefault(te.id, []).append(ve)
            elif isinstance(n, FuncTypes):
                nested[n.name] = n
        return imports, assigns, nested

    def params(self, func):
        a = func.args
        return [x.arg for x in a.posonlyargs + a.args] , [x.arg for x in a.kwonlyargs]

    def class_of_method(self, func):
        p = self.repo.parent(func)
        if isinstance(p, ast.ClassDef):
            return p
        return None


class CallGraph:
    def __init__(self, repo):
        self.repo = repo
        self.res = Resolver(repo)
        self.sites = {}        # fid -> list of (call node, [targets])
        self.edges = {}        # fid -> set(fid)
        self.ext_calls = {}    # fid -> list of (call node, dotted)
        self.unresolved = []   # (fid, call node)
        self.n_calls = 0
        self.n_resolved = 0
        self._scope = {}
        self.param_flow = {}   # (fid, param) -> set of targets
        self.tables = {}       # (modname, varname) -> set of targets stored in the table
        self._build()

    # ------------------------------------------------------------------ helpers
    def scope(self, func):
        if func not in self._scope:
            self._scope[func] = self.res.scope_info(func)
        return self._scope[func]

    def _return_nodes(self, fid, fn):
        c = self.__dict__.setdefault('_retcache', {})
        if fid not in c:
            c[fid] = [n for n in walk_no_nested(fn) if isinstance(n, ast.Return) and n.value is not None
                      and not isinstance(n.value, ast.Constant)]
        return c[fid]

    def funcs_in(self, expr, func):
        """All package functions an expression may evaluate to / contain (lists, dicts, lambdas)."""
        out = set()
        for n in ast.walk(expr):
            if isinstance(n, (ast.Name, ast.Attribute)):
                for t in self.resolve(n, func, _depth=1):
                    if t[0] == 'func':
                        out.add(t)
        return out

    def resolve(self, expr, func, _depth=0):
        """Possible targets of an expression evaluated inside `func` (None for module level)."""
        repo, res = self.repo, self.res
        if _depth > 8:
            return []
        m = repo.mod_of(func) if func is not None else None
        if isinstance(expr, ast.Name):
            name = expr.id
            f = func
            while f is not None:
                imports, assigns, nested = self.scope(f)
                pos, kwo = res.params(f)
                if name in nested:
                    return [('func', repo.fid_of(nested[name]))]
                if name in imports:
                    vals = imports[name] if isinstance(imports[name], list) else [imports[name]]
                    return [res.resolve_dotted(v) for v in vals]
                if name in assigns:
                    out = []
                    for v in assigns[name]:
                        out.extend(self.resolve(v, f, _depth + 1))
                    if name in pos or name in kwo:
                        out.extend(self.param_flow.get((repo.fid_of(f), name), ()))
                    return out
                if name in pos or name in kwo:
                    fid = repo.fid_of(f)
                    cls = res.class_of_method(f)
                    if cls is not None and pos and name == pos[0] and name in ('self', 'cls'):
                        return [('self', repo.where(cls) if False else '%s:%s' % (repo.mod_of(cls).name, repo._qual[cls]))]
                    return list(self.param_flow.get((fid, name), ()))
                f = repo.func_of(f)
            mm = m if m is not None else None
            if mm is None:
                return []
            t = res.lookup_module_name(mm, name)
            return [t] if t else []
        if isinstance(expr, ast.Attribute):
            bases = self.resolve(expr.value, func, _depth + 1)
            out = []
            for b in bases:
                if b[0] == 'self':
                    out.append(res.attr_of(('class', b[1]), expr.attr))
                elif b[0] in ('module', 'class', 'ext'):
                    out.append(res.attr_of(b, expr.attr))
                elif b[0] == 'value':
                    pass
            return out
        if isinstance(expr, ast.Subscript):
            # table lookup: T[...] where T is a module-level table, or X.differs[...] etc.
            out = []
            for key in self.table_keys(expr.value, func, _depth):
                out.extend(self.tables.get(key, ()))
            # element of a list-valued table entry: compares[0]
            for b in self.resolve(expr.value, func, _depth + 1):
                if b[0] == 'func':
                    out.append(b)
            return out
        if isinstance(expr, ast.Call):
            # functools.partial(f, ...) -> f ;  factory(...) -> nested defs it returns
            out = []
            for t in self.resolve(expr.func, func, _depth + 1):
                if t == ('ext', 'functools.partial') and expr.args:
                    out.extend(self.resolve(expr.args[0], func, _depth + 1))
                elif t[0] == 'func':
                    fn = repo.functions[t[1]]
                    for n in self._return_nodes(t[1], fn):
                        for r in self.resolve(n.value, fn, _depth + 1):
                            if r[0] == 'func':
                                out.append(r)
            return out
        if isinstance(expr, ast.Lambda):
            return list(self.funcs_in(expr.body, func))
        if isinstance(expr, ast.IfExp):
            return self.resolve(expr.body, func, _depth + 1) + self.resolve(expr.orelse, func, _depth + 1)
        return []

    def table_keys(self, expr, func, _depth=0):
        """Which registry tables may `expr` denote?  Returns table keys."""
        keys = []
        if isinstance(expr, ast.Attribute) and expr.attr in self.attr_tables:
            keys.extend(self.attr_tables[expr.attr])
        for t in (self.resolve(expr, func, _depth + 1) if isinstance(expr, (ast.Name, ast.Attribute)) else []):
            if t[0] == 'value' and t[1] in self.tables:
                keys.append(t[1])
        return keys

    # ------------------------------------------------------------------ build
    def _build(self):
        repo = self.repo
        # 1. registry tables: module-level dict / defaultdict(lambda: f, {...}) values
        self.attr_tables = {}
        for m in repo.modules.values():
            for name, vals in m.assigns.items():
                v = vals[-1]
                fs = set()
                if isinstance(v, ast.Dict):
                    for x in v.values:
                        fs |= self.funcs_in(x, None) if False else self._funcs_modlevel(m, x)
                elif isinstance(v, ast.Call) and (dotted(v.func) or '').split('.')[-1] in (
                        'defaultdict', 'defaultdict2', 'dict', 'OrderedDict'):
                    for a in list(v.args) + [k.value for k in v.keywords]:
                        fs |= self._funcs_modlevel(m, a)
                if fs:
                    self.tables[(m.name, name)] = set(fs)
        # functions returning a defaultdict(lambda: f): treat return value as anonymous table
        self.factory_tables = {}
        for fid, fn in repo.functions.items():
            for n in walk_no_nested(fn):
                if isinstance(n, ast.Return) and isinstance(n.value, ast.Call) and \
                        (dotted(n.value.func) or '').split('.')[-1] in ('defaultdict', 'defaultdict2'):
                    fs = set()
                    for a in n.value.args:
                        fs |= self.funcs_in(a, fn)
                    if fs:
                        self.factory_tables[fid] = fs
        # 2. attribute name -> tables, from keyword arguments of constructor calls
        #    (DiffConfig(predicates=notebook_predicates, differs=notebook_differs), and the
        #    defaults inside DiffConfig.__init__)
        for m in repo.modules.values():
            for call in ast.walk(m.tree):
                if not isinstance(call, ast.Call):
                    continue
                fn = repo.func_of(call)
                for kw in call.keywords:
                    if kw.arg is None:
                        continue
                    keys = []
                    if isinstance(kw.value, ast.Name):
                        t = self.res.lookup_module_name(m, kw.value.id)
                        if t and t[0] == 'value' and t[1] in self.tables:
                            keys.append(t[1])
                    elif isinstance(kw.value, ast.Call) and \
                            (dotted(kw.value.func) or '').split('.')[-1] in ('defaultdict', 'defaultdict2'):
                        fs = set()
                        for a in kw.value.args:
                            fs |= self.funcs_in(a, fn) if fn is not None else self._funcs_modlevel(m, a)
                        if fs:
                            key = (m.name, '<anon@%d>' % call.lineno + kw.arg)
                            self.tables[key] = fs
                            keys.append(key)
                    for k in keys:
                        self.attr_tables.setdefault(kw.arg, [])
                        if k not in self.attr_tables[kw.arg]:
                            self.attr_tables[kw.arg].append(k)
        # defaults: `predicates = default_predicates()` inside a constructor with a same-named param
        for fid, fn in repo.functions.items():
            for n in walk_no_nested(fn):
                if isinstance(n, ast.Assign) and len(n.targets) == 1 and \
                        isinstance(n.targets[0], ast.Name) and isinstance(n.value, ast.Call):
                    for t in self.resolve(n.value.func, fn):
                        if t[0] == 'func' and t[1] in self.factory_tables:
                            key = (t[1], '<factory>')
                            self.tables[key] = set(self.factory_tables[t[1]])
                            nm = n.targets[0].id
                            self.attr_tables.setdefault(nm, [])
                            if key not in self.attr_tables[nm]:
                                self.attr_tables[nm].append(key)
        # 3. stores into tables:  T[k] = v   (anywhere in the package)
        for fid, fn in list(repo.functions.items()):
            for n in walk_no_nested(fn):
                if isinstance(n, ast.Assign):
                    for tg in n.targets:
                        if isinstance(tg, ast.Subscript):
                            for key in self.table_keys(tg.value, fn):
                                for t in self.resolve(n.value, fn):
                                    if t[0] == 'func':
                                        self.tables[key].add(t)
        # 4. call sites + parameter flow to a fixpoint
        for _ in range(6):
            before = sum(len(v) for v in self.param_flow.values())
            self._collect_sites()
            after = sum(len(v) for v in self.param_flow.values())
            if after == before:
                break

    def _funcs_modlevel(self, m, expr):
        out = set()
        for n in ast.walk(expr):
            if isinstance(n, ast.Name):
                t = self.res.lookup_module_name(m, n.id)
                if t and t[0] == 'func':
                    out.add(t)
            elif isinstance(n, ast.Attribute):
                t = self.res.resolve_expr_modlevel(m, n)
                if t and t[0] == 'func':
                    out.add(t)
        return out

    def _collect_sites(self):
        repo = self.repo
        self.sites = {}
        self.edges = {}
        self.ext_calls = {}
        self.unresolved = []
        self.n_calls = self.n_resolved = 0
        for fid, fn in repo.functions.items():
            sites = []
            edges = set()
            for n in walk_no_nested(fn):
                if isinstance(n, FuncTypes) and n is not fn:
                    # a nested def is "called" by its parent (closures run on behalf of it)
                    edges.add(repo.fid_of(n))
                    continue
                if isinstance(n, ast.Lambda):
                    for t in self.funcs_in(n.body, fn):
                        edges.add(t[1])
                    continue
                if not isinstance(n, ast.Call):
                    continue
                self.n_calls += 1
                targets = list(self.resolve(n.func, fn))
                if not targets and isinstance(n.func, ast.Attribute):
                    recv = n.func.value
                    if isinstance(recv, ast.Call) and isinstance(recv.func, ast.Name) and recv.func.id == 'super':
                        targets = self._super_targets(fn, n.func.attr)
                    else:
                        # unknown receiver: every package method of that name (HTTP verb methods of
                        # request handlers are framework entry points, never called by name)
                        names = [n.func.attr] + FRAMEWORK_DISPATCH.get(n.func.attr, [])
                        for nm in names:
                            for mf in self.res.methods_by_name.get(nm, ()):
                                if nm in HTTP_VERBS and self.is_handler_class(mf.rsplit('.', 1)[0]):
                                    continue
                                targets.append(('func', mf))
                        if targets:
                            targets.append(('maybe-ext', n.func.attr))
                if targets:
                    self.n_resolved += 1
                else:
                    if isinstance(n.func, ast.Name) and n.func.id in BUILTINS:
                        targets = [('ext', 'builtins.' + n.func.id)]
                        self.n_resolved += 1
                    elif isinstance(n.func, ast.Attribute):
                        targets = [('ext-method', n.func.attr)]
                        self.n_resolved += 1
                    else:
                        self.unresolved.append((fid, n))
                sites.append((n, targets))
                for t in targets:
                    if t[0] == 'func':
                        edges.add(t[1])
                        self._flow_args(n, t[1], fn)
                    elif t[0] == 'class':
                        init = self.res.attr_of(t, '__init__')
                        if init[0] == 'func':
                            edges.add(init[1])
                            self._flow_args(n, init[1], fn, skip_self=True)
                    elif t[0] == 'ext':
                        self.ext_calls.setdefault(fid, []).append((n, t[1]))
                # functions passed as arguments may be called by the callee (callbacks):
                for a in list(n.args) + [k.value for k in n.keywords]:
                    if isinstance(a, (ast.Name, ast.Attribute)):
                        for t in self.resolve(a, fn):
                            if t[0] == 'func':
                                edges.add(t[1])
            self.sites[fid] = sites
            self.edges[fid] = edges

    def is_handler_class(self, cid):
        if cid not in self.repo.classes:
            return False
        try:
            full = self.res.mro_full(cid)
        except ValueError:
            return False
        return any(c.startswith('ext:') and 'Handler' in c for c in full)

    def _super_targets(self, fn, attr):
        cls = self.res.class_of_method(fn)
        if cls is None:
            return []
        cid = '%s:%s' % (self.repo.mod_of(cls).name, self.repo._qual[cls])
        for c in self.res.mro(cid)[1:]:
            for st in self.repo.classes[c].body:
                if isinstance(st, FuncTypes) and st.name == attr:
                    return [('func', self.repo.fid_of(st))]
        return [('ext-method', attr)]

    def _flow_args(self, call, callee_fid, caller_fn, skip_self=None):
        callee = self.repo.functions[callee_fid]
        pos, kwo = self.res.params(callee)
        is_method = isinstance(self.repo.parent(callee), ast.ClassDef)
        if skip_self is None:
            skip_self = is_method and isinstance(call.func, ast.Attribute)
        if skip_self and pos:
            pos = pos[1:]
        for i, a in enumerate(call.args):
            if isinstance(a, ast.Starred) or i >= len(pos):
                break
            self._flow(callee_fid, pos[i], a, caller_fn)
        for k in call.keywords:
            if k.arg and (k.arg in pos or k.arg in kwo):
                self._flow(callee_fid, k.arg, k.value, caller_fn)

    def _flow(self, callee_fid, param, expr, caller_fn):
        ts = set()
        for t in self.resolve(expr, caller_fn):
            if t[0] == 'func':
                ts.add(t)
        if isinstance(expr, (ast.List, ast.Tuple, ast.Lambda)):
            ts |= self.funcs_in(expr, caller_fn)
        if ts:
            self.param_flow.setdefault((callee_fid, param), set()).update(ts)

    # ------------------------------------------------------------------ queries
    def reachable(self, roots, stop=()):
        seen = set()
        stack = [r for r in roots]
        while stack:
            f = stack.pop()
            if f in seen or f in stop:
                continue
            seen.add(f)
            stack.extend(self.edges.get(f, ()))
        return seen

    def path(self, roots, target):
        """One call path root -> ... -> target (list of fids) or None."""
        from collections import deque
        prev = {}
        dq = deque()
        for r in roots:
            prev[r] = None
            dq.append(r)
        while dq:
            f = dq.popleft()
            if f == target:
                out = []
                while f is not None:
                    out.append(f)
                    f = prev[f]
                return list(reversed(out))
            for g in sorted(self.edges.get(f, ())):
                if g not in prev:
                    prev[g] = f
                    dq.append(g)
        return None

    def callers(self, fid):
        return sorted(f for f, es in self.edges.items() if fid in es)

    def stats(self):
        return {'call_sites': self.n_calls, 'call_sites_resolved': self.n_resolved,
                'call_sites_unresolved': len(self.unresolved),
                'functions': len(self.repo.functions), 'modules': len(self.repo.modules),
                'registry_tables': {('%s.%s' % k): sorted(t[1] for t in v)
                                    for k, v in self.tables.items()}}


HTTP_VERBS = {'get', 'post', 'put', 'delete', 'head', 'patch', 'options'}
# calling X on an object of a stdlib/third-party base class runs these overridable methods
FRAMEWORK_DISPATCH = {'parse_args': ['parse_known_args']}

BUILTINS = set('''abs all any bool bytes callable chr dict dir divmod enumerate filter float format
frozenset getattr hasattr hash id int isinstance issubclass iter len list map max min next object
open ord pow print range repr reversed round set setattr slice sorted str sum super tuple type vars
zip ValueError TypeError RuntimeError KeyError AssertionError NotImplementedError EnvironmentError
IndexError Exception AttributeError OSError IOError StopIteration'''.split())
