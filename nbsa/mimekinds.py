"""Finite-domain evaluation of the mime-value differ over JSON kinds.

`add_mime_diff(key, avalue, bvalue, builder)` chooses between "nothing", "recursive diff" and "replace" for one entry of a mime
bundle.  nbformat's schema lets a JSON mimetype (application/json, application/*+json) carry ANY JSON value and every other
mimetype a string or a list of strings.  The generic `diff` raises for anything but two strs / two lists / two dicts.  The
if-chain is therefore evaluated for every (mimetype class, kind of a, kind of b, equal or not) the schema admits, with a tiny
interpreter for the guard forms it uses; reaching the recursive-diff arm with a pair that `diff` rejects is a finding, and so is
reaching "nothing" for two values that are not identical.
"""
import ast

from .core import AnalysisError, dotted
from .util import if_chain, const_val

REPR = {'null': None, 'boolean': True, 'number': 1, 'string': 's', 'array': ['x'], 'object': {'k': 1}}
OTHER = {'null': None, 'boolean': False, 'number': 2, 'string': 't', 'array': ['y'], 'object': {'k': 2}}
DIFFABLE = {'string', 'array', 'object'}
TYPES = {'str': str, 'list': list, 'dict': dict, 'int': int, 'float': float, 'bool': bool}


NESTED = {'array': ([1], [1.0]), 'object': ({'k': 1}, {'k': 1.0})}      # equal under ==, different JSON documents


def _num(x):
    return type(x) if isinstance(x, (bool, int, float)) else None


def _shallow(l, r):
    # semantics of nbdime.diffing.generic.compare_strict (anchored by C02 R02.1): == plus number type at the top level only
    return l == r and _num(l) is _num(r)


def _deep(l, r):
    if isinstance(l, dict) and isinstance(r, dict):
        return l.keys() == r.keys() and all(_deep(l[k], r[k]) for k in l)
    if isinstance(l, list) and isinstance(r, list):
        return len(l) == len(r) and all(_deep(a, b) for a, b in zip(l, r))
    return _shallow(l, r)


class Unknown(Exception):
    pass


def _ev(e, env, consts):
    if isinstance(e, ast.Constant):
        return e.value
    if isinstance(e, ast.Name):
        if e.id in env:
            return env[e.id]
        if e.id in consts:
            return consts[e.id]
        if e.id in TYPES:
            return TYPES[e.id]
        raise Unknown(e.id)
    if isinstance(e, ast.Tuple):
        return tuple(_ev(x, env, consts) for x in e.elts)
    if isinstance(e, ast.BoolOp):
        if isinstance(e.op, ast.And):
            v = True
            for x in e.values:
                v = _ev(x, env, consts)
                if not v:
                    return v
            return v
        v = False
        for x in e.values:
            v = _ev(x, env, consts)
            if v:
                return v
        return v
    if isinstance(e, ast.UnaryOp) and isinstance(e.op, ast.Not):
        return not _ev(e.operand, env, consts)
    if isinstance(e, ast.Compare) and len(e.ops) == 1:
        l, r = _ev(e.left, env, consts), _ev(e.comparators[0], env, consts)
        op = e.ops[0]
        if isinstance(op, ast.Eq):
            return l == r
        if isinstance(op, ast.NotEq):
            return l != r
        if isinstance(op, ast.Is):
            return l is r
        if isinstance(op, ast.IsNot):
            return l is not r
        if isinstance(op, ast.In):
            return l in r
        raise Unknown(ast.unparse(e))
    if isinstance(e, ast.Call):
        d = dotted(e.func)
        if d == 'isinstance' and len(e.args) == 2:
            return isinstance(_ev(e.args[0], env, consts), _ev(e.args[1], env, consts))
        if d == 'type' and len(e.args) == 1:
            return type(_ev(e.args[0], env, consts))
        if d in ('any', 'all') and e.args and isinstance(e.args[0], ast.GeneratorExp) and len(e.args[0].generators) == 1:
            g = e.args[0].generators[0]
            seq = _ev(g.iter, env, consts)
            res = []
            for item in seq:
                env2 = dict(env)
                env2[g.target.id] = item
                res.append(bool(_ev(e.args[0].elt, env2, consts)))
            return any(res) if d == 'any' else all(res)
        if isinstance(e.func, ast.Attribute) and e.func.attr in ('startswith', 'endswith', 'lower') and not e.keywords:
            recv = _ev(e.func.value, env, consts)
            args = [_ev(a, env, consts) for a in e.args]
            return getattr(recv, e.func.attr)(*args)
        if d in ('compare_strict', 'strict_equal') and len(e.args) == 2:
            l, r = _ev(e.args[0], env, consts), _ev(e.args[1], env, consts)
            return _deep(l, r) if d == 'strict_equal' else _shallow(l, r)
        raise Unknown(ast.unparse(e))
    raise Unknown(ast.unparse(e))


def check_add_mime_diff(ctx, rule):
    repo = ctx.repo
    NB = 'nbdime.diffing.notebooks'
    fn = repo.func(NB + ':add_mime_diff')
    params = [a.arg for a in fn.args.args]
    if len(params) < 3:
        raise AnalysisError('add_mime_diff: unexpected signature')
    pkey, pa, pb = params[0], params[1], params[2]
    sm = repo.module_assign(NB, '_split_mimes')
    if not isinstance(sm, (ast.Tuple, ast.List)):
        raise AnalysisError('_split_mimes is not a literal tuple')
    consts = {'_split_mimes': tuple(const_val(x) for x in sm.elts)}
    # statements: locals assigned from expressions, then an if-chain / early returns
    classes = {'application/json': set(REPR), 'application/vnd.plotly.v1+json': set(REPR), 'text/plain': {'string', 'array'}, 'image/png': {'string', 'array'}}
    n = 0
    bad, good = {}, {}
    for mime, kinds in classes.items():
        for ka in sorted(kinds):
            for kb in sorted(kinds):
                for equal in (([True] if ka == 'null' else [True, False]) + (['nested'] if ka in NESTED and 'json' in mime else []) if ka == kb else [False]):
                    va = REPR[ka]
                    vb = REPR[kb] if equal is True else (OTHER[kb] if ka == kb else REPR[kb])
                    if equal == 'nested':
                        va, vb = NESTED[ka]
                    label = {True: ' (equal)', False: '', 'nested': ' (differing only in the type of a nested number)'}[equal]
                    equal = equal is True
                    env = {pkey: mime, pa: va, pb: vb, 'avalue': va, 'bvalue': vb, '__equal__': equal}
                    outcome = None

                    def run(stmts):
                        nonlocal outcome
                        for st in stmts:
                            if outcome is not None:
                                return
                            if isinstance(st, ast.Expr) and isinstance(st.value, ast.Constant):
                                continue
                            if isinstance(st, ast.Assign) and len(st.targets) == 1 and isinstance(st.targets[0], ast.Name):
                                calls = [c for c in ast.walk(st.value) if isinstance(c, ast.Call) and dotted(c.func) in ('diff', 'diffit')]
                                if calls:
                                    outcome = ('diff', st)
                                    # what follows only wraps the result
                                    return
                                env[st.targets[0].id] = _ev(st.value, env, consts)
                            elif isinstance(st, ast.Return):
                                outcome = ('nothing', st)
                            elif isinstance(st, ast.If):
                                t = _ev(st.test, env, consts)
                                run(st.body if t else st.orelse)
                            elif isinstance(st, ast.Expr) and isinstance(st.value, ast.Call):
                                m = st.value.func.attr if isinstance(st.value.func, ast.Attribute) else None
                                if m in ('replace', 'patch', 'add', 'remove'):
                                    outcome = (m, st)
                            else:
                                raise Unknown(ast.unparse(st)[:60])
                    try:
                        run(fn.body)
                    except Unknown as u:
                        raise AnalysisError('add_mime_diff: construct not modelled: %s' % u)
                    n += 1
                    what = outcome[0] if outcome else 'nothing'
                    ok = True
                    why = 'handled'
                    if what == 'diff' and not (ka == kb and ka in DIFFABLE):
                        ok = False
                        why = ('a %s and a %s value under %s reach the recursive differ, which only accepts two strs, two lists or two dicts: diff_notebooks raises RuntimeError -- '
                               'for two scalars even when the notebooks are identical' % (ka, kb, mime))
                    if what == 'nothing' and not equal:
                        ok = False
                        why = 'two different values (%s vs %s) under %s produce no diff entry' % (ka, kb, mime)
                    if not ok:
                        bad.setdefault((mime, what), []).append(('%s vs %s%s' % (ka, kb, label), why, outcome[1] if outcome else fn))
                    else:
                        good[mime] = good.get(mime, 0) + 1
    for (mime, what), lst in sorted(bad.items()):
        ctx.inst(rule, NB + ':add_mime_diff', '%s: wrong arm `%s`' % (mime, what), False,
                 '%s [%d pair(s): %s]' % (lst[0][1], len(lst), '; '.join(x[0] for x in lst[:12])), lst[0][2])
    for mime, k in sorted(good.items()):
        if not any(m == mime for m, _ in bad):
            ctx.inst(rule, NB + ':add_mime_diff', '%s: %d kind pair(s)' % (mime, k), True, 'each reaches an arm that accepts it and none loses a difference', fn)
    ctx.inst(rule, NB + ':add_mime_diff', '%d (mimetype class, kind, kind, equal?) combinations evaluated' % n, True, 'domain = what the nbformat mimebundle schema admits', None, nontrivial=False)
