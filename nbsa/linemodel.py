"""Which primitive splits text into lines at the sites that define line keys (shared by C01/C02/C15)."""
import ast

from .core import AnalysisError, dotted
from .util import calls_in, const_val

LINE_SITES = ['nbdime.diffing.sequences:diff_strings_linewise', 'nbdime.diff_utils:flatten_list_of_string_diff',
              'nbdime.merging.generic:_merge_strings', 'nbdime.utils:as_text_lines']


def splitter_signature(repo, cg, fid, _depth=0, _seen=None):
    """Set of (signature, node): 'splitlines(True)', 'splitlines(False)', 'split(<sep>)', 'regex', 'custom:<helper>'."""
    _seen = _seen or set()
    if fid in _seen or _depth > 3:
        return set()
    _seen.add(fid)
    fn = repo.func(fid)
    out = set()
    for c in calls_in(fn, nested=True):
        if isinstance(c.func, ast.Attribute):
            m = c.func.attr
            if m == 'splitlines':
                keep = (c.args and const_val(c.args[0]) is True) or any(k.arg == 'keepends' and const_val(k.value) is True for k in c.keywords)
                out.add(('splitlines(%s)' % bool(keep), c))
                continue
            if m == 'split' and c.args and isinstance(const_val(c.args[0]), str) and dotted(c.func.value) not in ('re',):
                sep = const_val(c.args[0])
                if sep in ('\n', '\r\n', '\r'):
                    out.add(('split(%r)' % sep, c))
                continue
            if m in ('split', 'findall', 'finditer', 'match', 'fullmatch') and (dotted(c.func.value) == 're' or
                                                                                (dotted(c.func.value) or '').lower().find('line') >= 0):
                out.add(('regex', c))
                continue
        for t in cg.resolve(c.func, repo.func_of(c) or fn):
            if t[0] == 'func' and t[1] != fid and t[1].split(':')[1].lower().find('line') >= 0 and t[1] not in LINE_SITES:
                sub = splitter_signature(repo, cg, t[1], _depth + 1, _seen)
                if sub == {s for s in sub if s[0] == 'splitlines(True)'} and sub:
                    out.add(('splitlines(True)', c))
                elif sub:
                    out.add(('custom:%s' % t[1], c))
    return out


def python_line_sites(ctx):
    """[(fid, signature set, node)] for every line-key site; AnalysisError if a site does not split at all."""
    repo, cg = ctx.repo, ctx.cg
    res = []
    for fid in LINE_SITES:
        sig = splitter_signature(repo, cg, fid)
        if not sig:
            # the site still exists but computes its line boundaries some other way (scanning for "\n", indexing ...)
            res.append((fid, ['custom:<no str.splitlines call: line boundaries are computed by hand>'], repo.func(fid)))
            continue
        res.append((fid, sorted({s for s, n in sig}), sorted(sig, key=lambda t: t[1].lineno)[0][1]))
    return res
