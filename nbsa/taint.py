"""Small interprocedural taint analysis (flow-insensitive inside a function, fixpoint over call sites).

is_source(node, fn) marks AST nodes that produce request-controlled data.  An expression is tainted
when, following local assignments (incl. for/with/unpack targets), @property bodies on ``self`` and
tainted parameters, it contains a source.
"""
import ast

from .core import FuncTypes, walk_no_nested
from .util import local_defs


class Taint:
    def __init__(self, ctx, is_source, scope_fids):
        self.ctx = ctx
        self.repo = ctx.repo
        self.cg = ctx.cg
        self.is_source = is_source
        self.scope = set(scope_fids)
        self.tainted_params = set()     # (fid, param name)
        self._defs = {}
        self._fixpoint()

    def defs(self, fn):
        if fn not in self._defs:
            self._defs[fn] = local_defs(fn)
        return self._defs[fn]

    def why(self, fn, expr, _seen=None, _depth=0):
        """Return a description (str) of why expr is tainted, or None."""
        repo, cg = self.repo, self.cg
        if _seen is None:
            _seen = set()
        if _depth > 6:
            return None
        fid = repo.fid_of(fn)
        for n in ast.walk(expr):
            if self.is_source(n, fn):
                return '%s (%s)' % (ast.unparse(n)[:60], repo.loc(n))
        defs = self.defs(fn)
        for n in ast.walk(expr):
            if isinstance(n, ast.Name):
                if (fid, n.id) in self.tainted_params:
                    return 'parameter %s of %s receives request data' % (n.id, fid)
                if n.id in defs and (fn, n.id) not in _seen:
                    _seen.add((fn, n.id))
                    for v, kind, st in defs[n.id]:
                        r = self.why(fn, v, _seen, _depth)
                        if r:
                            return '%s <- %s' % (n.id, r)
            elif isinstance(n, ast.Attribute) and isinstance(n.value, ast.Name) and n.value.id == 'self':
                # property on self defined in the package: follow its returns
                for t in cg.resolve(n, fn):
                    if t[0] == 'func':
                        pf = repo.functions[t[1]]
                        if any((isinstance(d, ast.Name) and d.id == 'property') for d in pf.decorator_list):
                            if (pf, '<ret>') in _seen:
                                continue
                            _seen.add((pf, '<ret>'))
                            for rn in walk_no_nested(pf):
                                if isinstance(rn, ast.Return) and rn.value is not None:
                                    r = self.why(pf, rn.value, _seen, _depth + 1)
                                    if r:
                                        return 'property %s <- %s' % (n.attr, r)
            elif isinstance(n, ast.Call):
                # result of a package function called with tainted args / returning tainted data
                for t in cg.resolve(n.func, fn):
                    if t[0] == 'func' and t[1] in self.scope and _depth < 4:
                        cf = repo.functions[t[1]]
                        if (cf, '<ret>') in _seen:
                            continue
                        _seen.add((cf, '<ret>'))
                        for rn in walk_no_nested(cf):
                            if isinstance(rn, ast.Return) and rn.value is not None:
                                r = self.why(cf, rn.value, _seen, _depth + 1)
                                if r:
                                    return 'return of %s <- %s' % (t[1], r)
        return None

    def _fixpoint(self):
        repo, cg = self.repo, self.cg
        for _ in range(8):
            n0 = len(self.tainted_params)
            for fid in sorted(self.scope):
                fn = repo.functions[fid]
                for call, targets in cg.sites.get(fid, []):
                    for t in targets:
                        if t[0] != 'func' or t[1] not in self.scope:
                            continue
                        callee = repo.functions[t[1]]
                        pos = [x.arg for x in callee.args.posonlyargs + callee.args.args]
                        if isinstance(repo.parent(callee), ast.ClassDef) and isinstance(call.func, ast.Attribute):
                            pos = pos[1:]
                        for i, a in enumerate(call.args):
                            if i < len(pos) and not isinstance(a, ast.Starred) and self.why(fn, a):
                                self.tainted_params.add((t[1], pos[i]))
                        for k in call.keywords:
                            if k.arg and self.why(fn, k.value):
                                self.tainted_params.add((t[1], k.arg))
            if len(self.tainted_params) == n0:
                break
