#!/bin/bash
# tools/try_twin.sh <patch>: apply a behaviour-preserving patch to a scratch worktree and run all 20 quick checks; print every non-zero exit
p=$(readlink -f $1)
wt=$(mktemp -d /tmp/tw-XXXXXX); rmdir $wt
git -C /repo worktree add -q --detach $wt HEAD || exit 9
if ! git -C $wt apply $p 2>/dev/null; then echo "  PATCH DOES NOT APPLY"; git -C /repo worktree remove --force $wt; exit 9; fi
export NBSA_EVIDENCE_DIR=$(mktemp -d /tmp/tw-ev-XXXXXX)
for i in $(seq -w 1 20); do
  ( out=$(/venv/bin/python -m nbsa.check C$i --root $wt 2>&1); rc=$?; if [ $rc -ne 0 ]; then echo "  C$i exit=$rc"; echo "$out" | grep "finding:\|ANALYSIS-ERROR" | cut -c1-330 | sed 's/^/      /' | head -4; fi ) &
done
wait
rm -rf $NBSA_EVIDENCE_DIR
git -C /repo worktree remove --force $wt
