#!/bin/bash
# tools/vet_round.sh <tag> <prop> <L1> <L2>: vet both seeds of a property from /tmp/<tag>-<prop>-out and remove the scratch worktree
tag=$1; p=$2
for L in $3 $4; do
  d=/tmp/$tag-$p-out/$L
  n=$d/notes.md; [ -f $n ] || n=$d/notes.txt
  /venv/bin/python /verif/tools/vet_seed.py $p-$L $p $d/patch.diff $d/demo.py $n 2>&1 | grep -v "^WARNING" | tail -6
done
git -C /repo worktree remove --force /tmp/$tag-$p 2>/dev/null
