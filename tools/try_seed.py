#!/usr/bin/env python3
"""Apply a seeded change to /repo, run the quick checks (all, or the listed properties), undo the change.

usage: tools/try_seed.py <patch.diff> [C01 C02 ...]
Evidence of these runs goes to a temp dir (NBSA_EVIDENCE_DIR), never to /verif/evidence.
Prints one line per property: ok / VIOLATION (with the finding lines) / ANALYSIS-ERROR.
"""
import os, subprocess, sys, tempfile, shutil
from concurrent.futures import ThreadPoolExecutor

PROPS = ['C%02d' % i for i in range(1, 21)]


def sh(*a, **k):
    return subprocess.run(a, stdout=subprocess.PIPE, stderr=subprocess.STDOUT, text=True, **k)


def main():
    patch = os.path.abspath(sys.argv[1])
    props = sys.argv[2:] or PROPS
    st = sh('git', '-C', '/repo', 'status', '--porcelain').stdout.strip()
    if st:
        print('refusing: /repo is not clean:\n' + st)
        return 2
    r = sh('git', '-C', '/repo', 'apply', patch)
    if r.returncode:
        print('patch does not apply:\n' + r.stdout)
        return 2
    ev = tempfile.mkdtemp(prefix='nbsa-seed-ev-')
    env = dict(os.environ, NBSA_EVIDENCE_DIR=ev)
    try:
        def run(p):
            return p, sh('/venv/bin/python', '-m', 'nbsa.check', p, '--tier', 'quick', cwd='/verif', env=env)
        with ThreadPoolExecutor(max_workers=8) as ex:
            res = list(ex.map(run, props))
    finally:
        sh('git', '-C', '/repo', 'checkout', '--', '.')
        sh('git', '-C', '/repo', 'clean', '-fdq')
        shutil.rmtree(ev, ignore_errors=True)
    caught = []
    for p, r in res:
        lines = r.stdout.splitlines()
        if r.returncode == 1:
            caught.append(p)
            print('%s VIOLATION' % p)
            for l in lines:
                if l.startswith('  finding:'):
                    print('     ' + l.strip()[:260])
        elif r.returncode == 2:
            print('%s ANALYSIS-ERROR %s' % (p, [l for l in lines if 'ANALYSIS-ERROR' in l][:1]))
        else:
            print('%s ok' % p)
    print('caught by: %s' % (caught or 'NONE'))
    return 0


if __name__ == '__main__':
    sys.exit(main())
