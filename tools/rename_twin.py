#!/usr/bin/env python3
"""Global benign twin 2: every function-local variable (not parameters, not globals/nonlocals, not names used by nested
functions) is renamed x -> x_q in every analysed Python file; then every quick check runs against the copy.
Exit 2 (anchor vanished) is tolerable for rules that name a local; a VIOLATION is a false alarm."""
import ast, os, shutil, subprocess, sys, tempfile, symtable
sys.path.insert(0, '/verif')
from nbsa.selftest import make_scratch

class Renamer(ast.NodeTransformer):
    def __init__(self, names):
        self.names = names
    def visit_Name(self, n):
        if n.id in self.names:
            n.id = n.id + '_q'
        return n
    def visit_ExceptHandler(self, n):
        if n.name in self.names:
            n.name = n.name + '_q'
        self.generic_visit(n)
        return n
    def visit_FunctionDef(self, n):
        return n            # nested defs untouched (handled on their own pass? no: keep simple)
    visit_AsyncFunctionDef = visit_FunctionDef
    visit_Lambda = lambda self, n: n
    visit_ClassDef = lambda self, n: n

def rename_module(src, fname):
    tree = ast.parse(src)
    st = symtable.symtable(src, fname, 'exec')
    def tables(t, out):
        for ch in t.get_children():
            out.append(ch)
            tables(ch, out)
    tabs = []
    tables(st, tabs)
    funcs = [n for n in ast.walk(tree) if isinstance(n, (ast.FunctionDef, ast.AsyncFunctionDef))]
    for fn in funcs:
        cands = [t for t in tabs if t.get_type() == 'function' and t.get_name() == fn.name and t.get_lineno() == fn.lineno]
        if not cands:
            continue
        t = cands[0]
        # skip functions that contain nested functions/lambdas/comprehension-free closures capturing locals: keep it safe
        has_nested = any(isinstance(x, (ast.FunctionDef, ast.AsyncFunctionDef, ast.Lambda)) for x in ast.walk(fn) if x is not fn)
        names = set()
        for s in t.get_symbols():
            if s.is_local() and not s.is_parameter() and not s.is_imported() and not s.is_namespace():
                # names captured by nested scopes stay
                if has_nested and any(s.get_name() in {y.get_name() for y in c.get_symbols() if y.is_free()} for c in t.get_children()):
                    continue
                names.add(s.get_name())
        # comprehension scopes: their iteration variables are separate symbols; names used inside comprehensions that refer to
        # function locals are free there -> rename consistently by walking the whole function body incl. comprehensions
        r = Renamer(names)
        fn.body = [r.visit(b) for b in fn.body]
        # comprehension targets that shadow: fine
    return ast.unparse(tree) + '\n'

def main():
    td = make_scratch('/repo')
    try:
        n = 0
        for dp, dn, fns in os.walk(os.path.join(td, 'nbdime')):
            for f in fns:
                if f.endswith('.py'):
                    p = os.path.join(dp, f)
                    src = open(p, encoding='utf8').read()
                    new = rename_module(src, p)
                    compile(new, p, 'exec')
                    open(p, 'w', encoding='utf8').write(new)
                    n += 1
        print('renamed locals in %d files under %s' % (n, td))
        if '--keep' in sys.argv:
            print('kept:', td)
        ev = tempfile.mkdtemp(prefix='nbsa-twin-ev-')
        bad = 0
        for i in range(1, 21):
            p = 'C%02d' % i
            r = subprocess.run(['/venv/bin/python', '-m', 'nbsa.check', p, '--tier', 'quick', '--root', td], cwd='/verif',
                               env=dict(os.environ, NBSA_EVIDENCE_DIR=ev), stdout=subprocess.PIPE, stderr=subprocess.STDOUT, text=True)
            last = [l for l in r.stdout.splitlines() if l.startswith(p + ':')]
            print(p, 'exit', r.returncode, (last[-1] if last else '')[:110])
            if r.returncode != 0:
                if r.returncode == 1:
                    bad += 1
                for l in r.stdout.splitlines():
                    if 'finding:' in l or 'ANALYSIS-ERROR' in l:
                        print('   ', l[:230])
        shutil.rmtree(ev, ignore_errors=True)
        return 1 if bad else 0
    finally:
        if '--keep' not in sys.argv:
            shutil.rmtree(td, ignore_errors=True)

if __name__ == '__main__':
    sys.exit(main())
