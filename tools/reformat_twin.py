#!/usr/bin/env python3
"""Global benign twin: copy the analysed tree, rewrite every Python file with ast.unparse (all comments gone, formatting, quotes
and line numbers changed, elif chains kept), run every quick check against the copy.  All must exit 0 with the same known findings."""
import ast, os, shutil, subprocess, sys, tempfile
sys.path.insert(0, '/verif')
from nbsa.selftest import make_scratch

def main():
    td = make_scratch('/repo')
    try:
        n = 0
        for dp, dn, fn in os.walk(os.path.join(td, 'nbdime')):
            for f in fn:
                if f.endswith('.py'):
                    p = os.path.join(dp, f)
                    src = open(p, encoding='utf8').read()
                    open(p, 'w', encoding='utf8').write(ast.unparse(ast.parse(src)) + '\n')
                    n += 1
        print('rewrote %d files under %s' % (n, td))
        ev = tempfile.mkdtemp(prefix='nbsa-twin-ev-')
        bad = 0
        for i in range(1, 21):
            p = 'C%02d' % i
            r = subprocess.run(['/venv/bin/python', '-m', 'nbsa.check', p, '--tier', 'quick', '--root', td], cwd='/verif',
                               env=dict(os.environ, NBSA_EVIDENCE_DIR=ev), stdout=subprocess.PIPE, stderr=subprocess.STDOUT, text=True)
            last = [l for l in r.stdout.splitlines() if l.startswith(p + ':')]
            print(p, 'exit', r.returncode, last[-1] if last else r.stdout[-300:])
            if r.returncode != 0:
                bad += 1
                for l in r.stdout.splitlines():
                    if 'finding:' in l or 'ANALYSIS-ERROR' in l:
                        print('   ', l[:260])
        shutil.rmtree(ev, ignore_errors=True)
        return 1 if bad else 0
    finally:
        shutil.rmtree(td, ignore_errors=True)

if __name__ == '__main__':
    sys.exit(main())
