#!/usr/bin/env python3
"""Regenerate MANIFEST.json from nbsa/manifest_data.py (single source of the per-property texts)."""
import json, os, sys
sys.path.insert(0, os.path.dirname(os.path.dirname(os.path.abspath(__file__))))
from nbsa.manifest_data import CLAIMED, NOT_APPLICABLE, NOTES, MORE

PY = '/venv/bin/python'
checks = []
for pid in sorted(CLAIMED):
    d = CLAIMED[pid]
    checks.append({
        'property_id': pid,
        'quick_cmd': '%s -m nbsa.check %s --tier quick' % (PY, pid),
        'thorough_cmd': '%s -m nbsa.check %s --tier thorough' % (PY, pid),
        'evidence_file': '/verif/evidence/%s.json' % pid,
        'replay_cmd_template': '%s -m nbsa.check --replay {path}' % PY,
        'engine': 'nbsa',
        'level_claimed': {'category': 'other', 'text': d['text'] + ((' Further rules: ' + MORE[pid]) if pid in MORE else ''), 'design_ref': 'DESIGN.md section 3, %s' % pid},
        'level_note': d['note'],
        'technique': d['technique'],
    })
man = {
    'version': 1,
    'setup_cmd': 'true',
    'hooks': {
        'guard': 'NBDIME_VERIF',
        'enable': 'none: static analysis reads /repo sources; no instrumentation exists, the guard is unused',
        'baseline_off_cmd': '/venv/bin/python /verif/tools/baseline_check.py',
        'source_commits': [],
        'add_only': True,
    },
    'engines': [{
        'name': 'nbsa',
        'path': '/verif/nbsa',
        'serves_properties': sorted(CLAIMED),
        'kind_free_text': 'repository-specific static analyser (pure stdlib): ast symbol tables, name resolution + '
                          'whole-package call graph with registry/parameter flow, per-function statement CFG with '
                          'branch-edge dominance, def-use origin queries, three-valued partial evaluation of dispatch '
                          'chains, TypeScript lexical scanner, JSON-schema / rst table extraction',
    }],
    'checks': checks,
    'not_applicable': [{'property_id': k, 'reason': v} for k, v in sorted(NOT_APPLICABLE.items())],
    'notes': NOTES,
}
with open(os.path.join(os.path.dirname(os.path.dirname(os.path.abspath(__file__))), 'MANIFEST.json'), 'w') as f:
    json.dump(man, f, indent=1)
print('claimed', sorted(CLAIMED), 'n/a', sorted(NOT_APPLICABLE))
