#!/usr/bin/env python3
"""Write nbsa/baseline_functions.json: the ids of all module-level functions of /repo as it stands (reference tree of the rules).
Run after every commit to /repo."""
import json, os, sys
os.environ['NBSA_NO_INLINE'] = '1'
sys.path.insert(0, '/verif')
from nbsa.core import Repo
r = Repo(sys.argv[1] if len(sys.argv) > 1 else '/repo')
ids = sorted(r.functions)
json.dump(ids, open('/verif/nbsa/baseline_functions.json', 'w'), indent=0)
from nbsa.inline import function_features
feats = {}
for m in r.modules.values():
    import ast
    for st in m.tree.body:
        if isinstance(st, ast.FunctionDef):
            feats['%s:%s' % (m.name, st.name)] = function_features(st)
json.dump(feats, open('/verif/nbsa/baseline_features.json', 'w'), indent=0, sort_keys=True)
print(len(ids), 'functions and methods')
