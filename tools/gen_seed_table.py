#!/usr/bin/env python3
"""Rewrite the seed table of DESIGN.md (between the SEED-TABLE markers) from /verif/seeded/*/meta.json."""
import json, os, re
rows = []
for sid in sorted(os.listdir('/verif/seeded')):
    m = json.load(open('/verif/seeded/%s/meta.json' % sid))
    t = (m.get('needs_to_manifest') or '').strip().splitlines()
    first = t[0].lstrip('# ').strip() if t else ''
    first = re.sub(r'^(C\d+\s*/?\s*)?(change|seed)?\s*[A-H]?\s*[:\-–—]+\s*', '', first, flags=re.I)
    first = re.sub(r'^Change [A-H]\s*(\(C\d+\))?\s*[:\-–—]*\s*', '', first)
    rules = []
    for p in m.get('caught_by', []):
        for l in m.get('findings', {}).get(p, [])[:6]:
            mo = re.search(r'finding: (R\d+\.\d+)', l)
            if mo and mo.group(1) not in rules:
                rules.append(mo.group(1))
    own = m['breaks_property']
    caught = m.get('caught_by') or []
    status = 'own check' if own in caught else ('other check' if caught else '**missed**')
    rows.append('| %s | %s | %s | %s | %s | %s |' % (sid, own, first.replace('|', '/')[:110], ', '.join(caught) or '-', ', '.join(rules) or '-', status))
table = ['| seed | breaks | change (one line) | checks that report it | rules | verdict |', '|---|---|---|---|---|---|'] + rows
n = len(rows)
own = sum(1 for r in rows if r.endswith('| own check |'))
oth = sum(1 for r in rows if r.endswith('| other check |'))
table.append('')
table.append('%d seeded changes: %d reported by the check of the property they break, %d only by another property\'s check, %d missed.' % (n, own, oth, n - own - oth))
p = '/verif/DESIGN.md'
s = open(p).read()
a, b = '<!-- SEED-TABLE-BEGIN -->', '<!-- SEED-TABLE-END -->'
assert a in s and b in s
s = s[:s.index(a) + len(a)] + '\n' + '\n'.join(table) + '\n' + s[s.index(b):]
open(p, 'w').write(s)
print(table[-1])
