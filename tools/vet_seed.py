#!/usr/bin/env python3
"""Vet one seeded change produced by a sub-agent and, if it holds up, store it under /verif/seeded/<id>/.

usage: tools/vet_seed.py <seed-id> <property> <patch.diff> <demo.py> [notes.md]

Steps (all in a scratch worktree of /repo HEAD under /tmp, removed afterwards):
  1. patch applies; changed python files compile
  2. demo passes (exit 0) on the unchanged tree and fails (exit != 0) with the change
  3. the pinned test-suite gives the same pass/fail/error counts with the change as without
  4. run the quick checks of /verif against the changed tree (--root) and report which properties raise VIOLATION
Writes /verif/seeded/<id>/{patch.diff, demo.py, notes.md, meta.json}.
"""
import json, os, re, shutil, subprocess, sys, tempfile
from concurrent.futures import ThreadPoolExecutor

PROPS = ['C%02d' % i for i in range(1, 21)]
BASE_COUNTS = None


def sh(cmd, **k):
    return subprocess.run(cmd, shell=isinstance(cmd, str), stdout=subprocess.PIPE, stderr=subprocess.STDOUT, text=True, **k)


def suite_counts(tree):
    r = sh('cd %s && /venv/bin/python -m pytest -q -p no:cacheprovider --timeout=900 --continue-on-collection-errors 2>&1 | tail -1' % tree)
    line = r.stdout.strip().splitlines()[-1] if r.stdout.strip() else ''
    return {k: int(v) for v, k in re.findall(r'(\d+) (failed|passed|errors?|xfailed)', line)}, line


def main():
    sid, prop, patch, demo = sys.argv[1:5]
    notes = sys.argv[5] if len(sys.argv) > 5 else None
    wt = tempfile.mkdtemp(prefix='vet-%s-' % sid, dir='/tmp')
    os.rmdir(wt)
    meta = {'id': sid, 'breaks_property': prop, 'ran': []}
    try:
        r = sh(['git', '-C', '/repo', 'worktree', 'add', '-q', '--detach', wt, 'HEAD'])
        assert r.returncode == 0, r.stdout
        env = dict(os.environ, PYTHONPATH=wt)
        d0 = sh(['/venv/bin/python', os.path.abspath(demo)], env=env, cwd=wt, timeout=600)
        meta['ran'].append('demo on unchanged tree: exit %d' % d0.returncode)
        base, bline = suite_counts(wt)
        meta['ran'].append('suite on unchanged tree: %s' % bline)
        a = sh(['git', '-C', wt, 'apply', os.path.abspath(patch)])
        if a.returncode:
            print('REJECT: patch does not apply: %s' % a.stdout)
            return 1
        changed = sh(['git', '-C', wt, 'diff', '--name-only']).stdout.split()
        for f in changed:
            if f.endswith('.py'):
                c = sh(['/venv/bin/python', '-m', 'py_compile', os.path.join(wt, f)])
                if c.returncode:
                    print('REJECT: %s does not compile' % f)
                    return 1
        d1 = sh(['/venv/bin/python', os.path.abspath(demo)], env=env, cwd=wt, timeout=600)
        meta['ran'].append('demo with change: exit %d' % d1.returncode)
        new, nline = suite_counts(wt)
        meta['ran'].append('suite with change: %s' % nline)
        print('demo: unchanged exit %d, changed exit %d' % (d0.returncode, d1.returncode))
        print('suite: unchanged %s | changed %s' % (base, new))
        if d0.returncode != 0 or d1.returncode == 0:
            print('REJECT: demonstration does not discriminate')
            print(d0.stdout[-600:], '\n----\n', d1.stdout[-600:])
            return 1
        if base != new:
            print('REJECT: the change alters the test-suite outcome')
            return 1
        evd = tempfile.mkdtemp(prefix='nbsa-vet-ev-')

        def run(p):
            return p, sh(['/venv/bin/python', '-m', 'nbsa.check', p, '--tier', 'quick', '--root', wt], cwd='/verif',
                         env=dict(os.environ, NBSA_EVIDENCE_DIR=evd))
        with ThreadPoolExecutor(max_workers=8) as ex:
            res = list(ex.map(run, PROPS))
        shutil.rmtree(evd, ignore_errors=True)
        caught, errs, details = [], [], {}
        for p, r in res:
            if r.returncode == 1:
                caught.append(p)
                details[p] = [l.strip()[:300] for l in r.stdout.splitlines() if l.startswith('  finding:')]
            elif r.returncode == 2:
                errs.append(p)
                details[p] = [l.strip()[:300] for l in r.stdout.splitlines() if 'ANALYSIS-ERROR' in l]
        meta['caught_by'] = caught
        meta['analysis_errors'] = errs
        meta['findings'] = details
        meta['files_changed'] = changed
        print('caught by: %s   analysis errors: %s' % (caught or 'NONE', errs or 'none'))
        for p in caught + errs:
            for l in details[p][:3]:
                print('   ', p, l[:220])
        out = os.path.join('/verif/seeded', sid)
        os.makedirs(out, exist_ok=True)
        shutil.copy(patch, os.path.join(out, 'patch.diff'))
        shutil.copy(demo, os.path.join(out, 'demo.py'))
        if notes and os.path.exists(notes):
            shutil.copy(notes, os.path.join(out, 'notes.md'))
            meta['needs_to_manifest'] = open(notes).read()[:1500]
        with open(os.path.join(out, 'meta.json'), 'w') as f:
            json.dump(meta, f, indent=1)
        print('stored in', out)
        return 0
    finally:
        sh(['git', '-C', '/repo', 'worktree', 'remove', '--force', wt])
        shutil.rmtree(wt, ignore_errors=True)


if __name__ == '__main__':
    sys.exit(main())
