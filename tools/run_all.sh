#!/bin/bash
# Run every quick check against /repo (or $1) in parallel; print one line per property; exit 1 if any is non-zero.
ROOT=${1:-/repo}
cd /verif
rc=0
printf '%s\n' C01 C02 C03 C04 C05 C06 C07 C08 C09 C10 C11 C12 C13 C14 C15 C16 C17 C18 C19 C20 | \
  xargs -P 8 -I{} bash -c "/venv/bin/python -m nbsa.check {} --tier quick --root $ROOT > /tmp/ra_{}.log 2>&1; echo \"{} exit=\$? \$(tail -1 /tmp/ra_{}.log | cut -c1-100)\"" | sort | tee /tmp/ra_all.log
grep -v "exit=0" /tmp/ra_all.log > /dev/null && rc=1
exit $rc
