#!/usr/bin/env python3
"""Re-run the quick checks against every stored seeded change (or the listed ids) and update meta.json.

usage: tools/recheck_seeds.py [id ...]      (scratch worktrees under /tmp, removed afterwards)
"""
import json, os, shutil, subprocess, sys, tempfile
from concurrent.futures import ThreadPoolExecutor

PROPS = ['C%02d' % i for i in range(1, 21)]
SEEDED = '/verif/seeded'


def sh(cmd, **k):
    return subprocess.run(cmd, stdout=subprocess.PIPE, stderr=subprocess.STDOUT, text=True, **k)


def one(sid):
    d = os.path.join(SEEDED, sid)
    meta = json.load(open(os.path.join(d, 'meta.json')))
    wt = tempfile.mkdtemp(prefix='re-%s-' % sid, dir='/tmp')
    os.rmdir(wt)
    try:
        assert sh(['git', '-C', '/repo', 'worktree', 'add', '-q', '--detach', wt, 'HEAD']).returncode == 0
        a = sh(['git', '-C', wt, 'apply', os.path.join(d, 'patch.diff')])
        if a.returncode:
            return sid, None, ['patch no longer applies'], {}
        evd = tempfile.mkdtemp(prefix='nbsa-re-ev-')
        caught, errs, details = [], [], {}
        # the property it breaks first, then the others
        props = PROPS
        if FAST:
            # the property it breaks, plus whatever reported or could not decide it last time
            props = sorted({meta['breaks_property']} | set(meta.get('caught_by') or []) | set(meta.get('analysis_errors') or []))
        for p in props:
            r = sh(['/venv/bin/python', '-m', 'nbsa.check', p, '--tier', 'quick', '--root', wt], cwd='/verif',
                   env=dict(os.environ, NBSA_EVIDENCE_DIR=evd))
            if r.returncode == 1:
                caught.append(p)
                details[p] = [l.strip()[:300] for l in r.stdout.splitlines() if l.startswith('  finding:')]
            elif r.returncode == 2:
                errs.append(p)
                details[p] = [l.strip()[:300] for l in r.stdout.splitlines() if 'ANALYSIS-ERROR' in l]
        shutil.rmtree(evd, ignore_errors=True)
        meta['caught_by'] = caught
        meta['analysis_errors'] = errs
        meta['findings'] = details
        json.dump(meta, open(os.path.join(d, 'meta.json'), 'w'), indent=1)
        return sid, caught, errs, details
    finally:
        sh(['git', '-C', '/repo', 'worktree', 'remove', '--force', wt])
        shutil.rmtree(wt, ignore_errors=True)


FAST = False


def main():
    global FAST
    argv = sys.argv[1:]
    if '--fast' in argv:
        FAST = True
        argv.remove('--fast')
    ids = argv or sorted(os.listdir(SEEDED))
    with ThreadPoolExecutor(max_workers=8) as ex:
        for sid, caught, errs, details in ex.map(one, ids):
            own = json.load(open(os.path.join(SEEDED, sid, 'meta.json')))['breaks_property']
            print('%-7s breaks %s  caught by %-22s errors %s' % (sid, own, caught, errs or ''))
            for p in (caught or []):
                for l in details[p][:1]:
                    print('          %s %s' % (p, l[:200]))


if __name__ == '__main__':
    main()
