#!/usr/bin/env python3
"""Prepare a seeding round: tools/prep_round.py <round tag, e.g. s4> <letter1> <letter2>
Writes /tmp/<tag>-Cxx-task.txt and -prop.txt for every property and creates a scratch worktree /tmp/<tag>-Cxx of /repo HEAD.
The task text carries ONLY the property text and the titles of changes already made for it (so new ones differ); nothing from /verif."""
import glob, json, os, re, subprocess, sys

tag, L1, L2 = sys.argv[1], sys.argv[2], sys.argv[3]
props = {json.loads(l)['id']: json.loads(l) for l in open('/verif/properties.jsonl')}
tmpl = open('/tmp/s3-C01-task.txt').read()
for pid, d in sorted(props.items()):
    ideas = []
    for nd in sorted(glob.glob('/verif/seeded/%s-*/notes.md' % pid)):
        first = open(nd).readline().strip().lstrip('#').strip()
        first = re.sub(r'^(C\d\d\s*[/,]?\s*)?(change|Change)\s+[A-Z]\s*[:\-—–]+\s*', '', first)
        first = re.sub(r'^C\d\d\s*[/,]\s*', '', first)
        ideas.append('- ' + first.strip(' "`'))
    prop_src = '/tmp/s3-%s-prop.txt' % pid
    prop_txt = open(prop_src).read()
    open('/tmp/%s-%s-prop.txt' % (tag, pid), 'w').write(prop_txt)
    t = tmpl.replace('s3-C01', '%s-%s' % (tag, pid))
    t = t.replace('(called E and F)', '(called %s and %s)' % (L1, L2)).replace('E and F must', '%s and %s must' % (L1, L2))
    t = t.replace('-out/E/', '-out/%s/' % L1).replace('-out/F/', '-out/%s/' % L2).replace('summary of E and F', 'summary of %s and %s' % (L1, L2))
    a = t.index('Ideas already taken')
    b = t.index('DELIVER for each change')
    t = t[:a] + 'Ideas already taken (do something different):\n' + '\n'.join(ideas) + '\n\n' + t[b:]
    open('/tmp/%s-%s-task.txt' % (tag, pid), 'w').write(t)
    wt = '/tmp/%s-%s' % (tag, pid)
    subprocess.run(['git', '-C', '/repo', 'worktree', 'remove', '--force', wt], capture_output=True)
    subprocess.run(['rm', '-rf', wt, wt + '-out'])
    subprocess.run(['git', '-C', '/repo', 'worktree', 'add', '-q', '--detach', wt, 'HEAD'], check=True)
    os.makedirs(wt + '-out', exist_ok=True)
    print(pid, len(ideas), 'ideas')
