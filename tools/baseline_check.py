#!/usr/bin/env python3
"""Run the pinned test-suite of /repo (command from /root/.vp/BASELINE.json) and compare with its
stable_pass list.  Exit 0 iff every stable_pass test still passes.  Not part of any check."""
import json, os, subprocess, sys, tempfile
import xml.etree.ElementTree as ET

def main():
    base = json.load(open('/root/.vp/BASELINE.json'))
    fd, xml = tempfile.mkstemp(suffix='.junit.xml'); os.close(fd)
    cmd = base['cmd'].replace('<file>', xml)
    env = dict(os.environ); env.pop('NBDIME_VERIF', None)
    p = subprocess.run(cmd, shell=True, env=env, stdout=subprocess.PIPE, stderr=subprocess.STDOUT, text=True)
    passed = set()
    for tc in ET.parse(xml).getroot().iter('testcase'):
        if not any(ch.tag in ('failure', 'error', 'skipped') for ch in tc):
            passed.add('%s::%s' % (tc.get('classname'), tc.get('name')))
    os.remove(xml)
    missing = [t for t in base['stable_pass'] if t not in passed]
    print('passed now: %d; stable_pass: %d; stable tests not passing now: %d' % (
        len(passed), len(base['stable_pass']), len(missing)))
    for t in missing[:40]:
        print('  MISSING', t)
    if missing:
        print(p.stdout[-3000:])
    return 1 if missing else 0

if __name__ == '__main__':
    sys.exit(main())
