#!/bin/bash
# tools/run_twins.sh [ids...]: run all 20 quick checks against every stored behaviour-preserving refactoring (twins/*/patch.diff)
cd /verif
ids=${@:-$(ls twins)}
for t in $ids; do echo "== $t"; tools/try_twin.sh twins/$t/patch.diff; done 2>&1 | grep -v "^WARNING"
