"""C01: diff_notebooks accepts plain dicts (it type-checks for dict and says so in its
error message) but crashes with AttributeError as soon as two display_data /
execute_result outputs get aligned, because diff_single_outputs uses NotebookNode
attribute access (a.output_type, a.data = ...).

Run as: PYTHONPATH=<tree> /venv/bin/python C01_plain_dict_notebooks.py
"""
import copy
import json
import sys
import traceback
import warnings

warnings.simplefilter("ignore")
import nbformat
import nbdime
from nbdime.patching import patch


def where():
    """Innermost nbdime frame + exception line of the current traceback."""
    lines = traceback.format_exc().strip().splitlines()
    files = [l.strip() for l in lines if l.strip().startswith("File ")]
    return "%s  [%s]" % (lines[-1], files[-1] if files else "?")


def notebook(text):
    return {
        "nbformat": 4, "nbformat_minor": 4, "metadata": {},
        "cells": [{
            "cell_type": "code", "execution_count": 1, "metadata": {}, "source": "x",
            "outputs": [{"output_type": "execute_result", "execution_count": 1, "metadata": {},
                         "data": {"text/plain": text}}],
        }],
    }


a, b = notebook("1"), notebook("2")
for nb in (a, b):
    nbformat.validate(nbformat.from_dict(copy.deepcopy(nb)), version=4)
# what a user gets from json.load(open("x.ipynb")): plain dicts
a = json.loads(json.dumps(a))
b = json.loads(json.dumps(b))
try:
    d = nbdime.diff_notebooks(a, b)          # public, exported API
    r = patch(a, d)
except Exception:
    print("VIOLATION: diff_notebooks on plain-dict notebooks raised: " + where())
    sys.exit(1)
if json.dumps(r, sort_keys=True) != json.dumps(b, sort_keys=True):
    print("VIOLATION: round trip mismatch")
    sys.exit(1)
sys.exit(0)
