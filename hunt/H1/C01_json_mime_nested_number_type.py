"""C01: a change of JSON number type (int <-> float <-> bool) nested inside a
structured "+json" MIME payload (anything but plain application/json, e.g. plotly,
vega, widget-view) is invisible to diff_notebooks: the diff is empty although the
notebooks differ, and diff+patch does not rebuild B.

Run as: PYTHONPATH=<tree> /venv/bin/python C01_json_mime_nested_number_type.py
"""
import copy
import json
import sys
import warnings

warnings.simplefilter("ignore")
import nbformat
from nbdime.diffing.notebooks import diff_notebooks
from nbdime.patching import patch_notebook


def canon(x):
    return json.dumps(x, sort_keys=True)


def notebook(width):
    return {
        "nbformat": 4, "nbformat_minor": 4, "metadata": {},
        "cells": [{
            "cell_type": "code", "execution_count": 1, "metadata": {}, "source": "fig.show()",
            "outputs": [{
                "output_type": "display_data", "metadata": {},
                "data": {"application/vnd.plotly.v1+json": {"data": [], "layout": {"width": width}}},
            }],
        }],
    }


bad = False
for wa, wb in [(500, 500.0), (1, True), (0.0, False)]:
    a, b = notebook(wa), notebook(wb)
    for nb in (a, b):
        nbformat.validate(nbformat.from_dict(copy.deepcopy(nb)), version=4)
    assert canon(a) != canon(b)  # the two notebooks serialise differently
    A, B = nbformat.from_dict(copy.deepcopy(a)), nbformat.from_dict(copy.deepcopy(b))
    d = diff_notebooks(A, B)
    r = patch_notebook(A, d)
    if not d:
        print("VIOLATION: layout.width %r -> %r: notebooks differ but the diff is empty" % (wa, wb))
        bad = True
    if canon(r) != canon(b):
        print("VIOLATION: layout.width %r -> %r: patch(A, diff(A, B)) serialises as\n   %s\n instead of\n   %s"
              % (wa, wb, canon(r["cells"][0]["outputs"][0]["data"]), canon(b["cells"][0]["outputs"][0]["data"])))
        bad = True

# Control: the same edit under plain application/json (recursively diffed) is detected
sys.exit(1 if bad else 0)
