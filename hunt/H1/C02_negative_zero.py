"""C02 (and C01 via metadata): 0.0 and -0.0 are different JSON values ("0.0" vs "-0.0")
but the differ treats them as equal: empty diff for non-identical documents, and
patch(a, diff(a, b)) does not serialise like b.

Run as: PYTHONPATH=<tree> /venv/bin/python C02_negative_zero.py
"""
import copy
import json
import sys
import warnings

warnings.simplefilter("ignore")
from nbdime.diffing.generic import diff
from nbdime.patching import patch


def canon(x):
    return json.dumps(x, sort_keys=True)


bad = False
cases = [
    ({"x": 0.0}, {"x": -0.0}),                 # dict value
    ([0.0], [-0.0]),                           # list element
    (["b", -0.0], ["", 0.0]),                  # next to a real change: the change of sign is lost
]
for a, b in cases:
    assert canon(json.loads(canon(a))) == canon(a) and canon(a) != canon(b)
    d = diff(copy.deepcopy(a), copy.deepcopy(b))
    r = patch(copy.deepcopy(a), d)
    if not d:
        print("VIOLATION: %s vs %s serialise differently but diff is empty" % (canon(a), canon(b)))
        bad = True
    if canon(r) != canon(b):
        print("VIOLATION: patch(a, diff(a, b)) = %s, expected %s" % (canon(r), canon(b)))
        bad = True

# Same through the notebook differ (metadata value)
import nbformat
from nbdime.diffing.notebooks import diff_notebooks
from nbdime.patching import patch_notebook
nb = lambda v: {"nbformat": 4, "nbformat_minor": 4, "metadata": {"threshold": v}, "cells": []}
a, b = nb(0.0), nb(-0.0)
for x in (a, b):
    nbformat.validate(nbformat.from_dict(copy.deepcopy(x)), version=4)
d = diff_notebooks(nbformat.from_dict(copy.deepcopy(a)), nbformat.from_dict(copy.deepcopy(b)))
if not d:
    print("VIOLATION: notebooks with metadata.threshold 0.0 / -0.0 differ but notebook diff is empty")
    bad = True
sys.exit(1 if bad else 0)
