"""C01: diff_notebooks crashes on a JSON-typed MIME value that is not a list/dict/str
(e.g. "application/json": 5), even when the value is unchanged.

Run as: PYTHONPATH=<tree> /venv/bin/python C01_json_mime_scalar_crash.py
Exit 1 if the property is violated, 0 otherwise.
"""
import copy
import sys
import traceback
import warnings

warnings.simplefilter("ignore")
import nbformat
from nbdime.diffing.notebooks import diff_notebooks
from nbdime.patching import patch_notebook


def where():
    """Innermost nbdime frame + exception line of the current traceback."""
    lines = traceback.format_exc().strip().splitlines()
    files = [l.strip() for l in lines if l.strip().startswith("File ")]
    return "%s  [%s]" % (lines[-1], files[-1] if files else "?")


def notebook(source, json_value):
    return {
        "nbformat": 4, "nbformat_minor": 4, "metadata": {},
        "cells": [{
            "cell_type": "code", "execution_count": 1, "metadata": {},
            "source": source,
            "outputs": [{
                "output_type": "execute_result", "execution_count": 1, "metadata": {},
                # nbformat schema: values of ^application/(.*\+)?json$ keys "can be any type"
                "data": {"application/json": json_value, "text/plain": "5"},
            }],
        }],
    }


def check(label, a, b):
    for nb in (a, b):
        nbformat.validate(nbformat.from_dict(copy.deepcopy(nb)), version=4)  # inputs are schema-valid
    A = nbformat.from_dict(copy.deepcopy(a))
    B = nbformat.from_dict(copy.deepcopy(b))
    try:
        d = diff_notebooks(A, B)
        r = patch_notebook(A, d)
    except Exception:
        print("VIOLATION (%s): diff/patch raised instead of producing a diff:" % label)
        print("   " + where())
        return False
    if r != B:
        print("VIOLATION (%s): patched result differs from target" % label)
        return False
    return True


ok = True
# 1. identical notebooks with an integer application/json payload
ok &= check("identical notebooks, application/json: 5", notebook("x", 5), notebook("x", 5))
# 2. only the source changed; the (unchanged) output has a null JSON payload
ok &= check("source edit, application/json: null", notebook("x", None), notebook("y", None))
# 3. scalar JSON payload that changes JSON type but compares == in Python (output still aligned)
ok &= check("application/json: 1 -> true", notebook("x", 1), notebook("x", True))


# 4. same root cause via attachments (always diffed key by key, no alignment needed):
#    JSON payload changes container type (object -> array)
def md(att):
    return {"nbformat": 4, "nbformat_minor": 4, "metadata": {},
            "cells": [{"cell_type": "markdown", "metadata": {}, "source": "![d](attachment:d.json)",
                       "attachments": {"d.json": {"application/json": att}}}]}
ok &= check("attachment application/json: {} -> []", md({"a": 1}), md([1]))

sys.exit(0 if ok else 1)
