"""C01: schema-valid v4 notebooks that keep multi-line strings in their on-disk form
(list of lines; nbformat's "multiline_string" allows string OR array of strings)
cannot be diffed: diff_notebooks raises TypeError as soon as two cells with list
sources are compared (lru_cache on compare_text_approximate hashes its arguments),
and for text/plain output data (re_pointer.split on a list).

Run as: PYTHONPATH=<tree> /venv/bin/python C01_multiline_list_strings.py
"""
import copy
import json
import sys
import traceback
import warnings

warnings.simplefilter("ignore")
import nbformat
from nbdime.diffing.notebooks import diff_notebooks
from nbdime.patching import patch_notebook


def where():
    """Innermost nbdime frame + exception line of the current traceback."""
    lines = traceback.format_exc().strip().splitlines()
    files = [l.strip() for l in lines if l.strip().startswith("File ")]
    return "%s  [%s]" % (lines[-1], files[-1] if files else "?")


def nb_source(lines):
    return {"nbformat": 4, "nbformat_minor": 4, "metadata": {},
            "cells": [{"cell_type": "markdown", "metadata": {}, "source": lines}]}


def nb_output(lines):
    return {"nbformat": 4, "nbformat_minor": 4, "metadata": {},
            "cells": [{"cell_type": "code", "execution_count": None, "metadata": {}, "source": "x",
                       "outputs": [{"output_type": "display_data", "metadata": {},
                                    "data": {"text/plain": lines}}]}]}


bad = False
for label, a, b in [
    ("list-form cell source", nb_source(["a\n", "b"]), nb_source(["a\n", "c"])),
    ("list-form text/plain", nb_output(["a\n", "b"]), nb_output(["a\n", "c"])),
]:
    for nb in (a, b):
        nbformat.validate(nbformat.from_dict(copy.deepcopy(nb)), version=4)   # valid as is
    # e.g. nbformat.from_dict(json.load(f)) -- from_dict does not join lines, only nbformat.read does
    A, B = nbformat.from_dict(copy.deepcopy(a)), nbformat.from_dict(copy.deepcopy(b))
    try:
        d = diff_notebooks(A, B)
        r = patch_notebook(A, d)
        if json.dumps(r, sort_keys=True) != json.dumps(b, sort_keys=True):
            print("VIOLATION (%s): round trip mismatch" % label)
            bad = True
    except Exception:
        print("VIOLATION (%s): raised %s" % (label, where()))
        bad = True
sys.exit(1 if bad else 0)
