"""C12: the ignore options chosen by one nbdiff invocation stay in force for all later
diffs in the same process.  args.process_diff_flags() only touches the global differ
table when a flag is given, and nothing resets it, so `nbdiff a b` (no flags) after
`nbdiff -s a b` still ignores outputs/metadata/..., unlike a fresh interpreter; a
plain library call diff_notebooks(a, b) afterwards is affected in the same way."""
import json, os, subprocess, sys, tempfile, io, contextlib
import nbformat
from nbformat.v4 import new_notebook, new_code_cell, new_output

td = tempfile.mkdtemp()
os.environ["HOME"] = td                  # no user config files
os.environ["JUPYTER_CONFIG_DIR"] = td
os.chdir(td)


def write(name, out):
    cell = new_code_cell("x = 1\n", outputs=[new_output("stream", text=out)])
    n = new_notebook()
    n.nbformat_minor = 4
    cell.pop("id", None)
    n.cells = [cell]
    nbformat.validate(n)
    p = os.path.join(td, name)
    nbformat.write(n, p)
    return p


a, b = write("a.ipynb", "1\n"), write("b.ipynb", "2\n")

from nbdime import nbdiffapp, diff_notebooks


def nbdiff(flags):
    out = os.path.join(td, "d.json")
    rc = nbdiffapp.main(flags + ["--out", out, a, b])
    assert rc == 0
    with open(out) as f:
        return json.load(f)


# what a freshly started interpreter answers for `nbdiff a b`
code = ("import sys, json; from nbdime import nbdiffapp; "
        "nbdiffapp.main(['--out', sys.argv[3], sys.argv[1], sys.argv[2]]); "
        "print(open(sys.argv[3]).read())")
fresh = json.loads(subprocess.run([sys.executable, "-c", code, a, b, os.path.join(td, "f.json")],
                                  check=True, capture_output=True, text=True, env=dict(os.environ)).stdout)

first = nbdiff([])                 # request 1: plain diff
nbdiff(["-s"])                     # request 2: sources only
third = nbdiff([])                 # request 3: plain diff again
lib = diff_notebooks(nbformat.read(a, as_version=4), nbformat.read(b, as_version=4))

problems = []
if first != fresh:
    problems.append("first in-process call already differs from fresh interpreter")
if third != fresh:
    problems.append("`nbdiff a b` after `nbdiff -s a b` returned %r, a fresh interpreter returns %r"
                    % (third, fresh))
if json.loads(json.dumps(lib)) != fresh:
    problems.append("library call diff_notebooks(a, b) after `nbdiff -s` returned %r" % (lib,))
if problems:
    print("VIOLATION C12 (ignore flags of an earlier call persist):")
    for p in problems:
        print("  -", p)
    sys.exit(1)
print("ok")
