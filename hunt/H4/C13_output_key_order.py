"""C13: diff_notebooks (and therefore decide_merge / merge_notebooks) rewrites its
input notebooks: every display_data / execute_result output that gets compared has
its 'data' key popped and re-inserted, so the input no longer serialises to the
same JSON text (key order changes: 'data' moves last)."""
import json, sys
import nbformat
from nbformat.v4 import new_notebook, new_code_cell, new_output
from nbdime import diff_notebooks


def nb(text):
    out = new_output("display_data", data={"text/plain": text}, metadata={})
    cell = new_code_cell("x", outputs=[out])
    cell.pop("id", None)
    n = new_notebook()
    n.nbformat_minor = 4
    n.cells = [cell]
    nbformat.validate(n)
    # round-trip through the on-disk form, as every notebook read from a file is
    # (nbformat writes keys sorted, so 'data' precedes 'metadata' and 'output_type')
    n = nbformat.reads(nbformat.writes(n), as_version=4)
    nbformat.validate(n)
    return n


a, b = nb("1"), nb("2")
before = (json.dumps(a), json.dumps(b))
keys_before = list(a.cells[0].outputs[0].keys())
diff_notebooks(a, b)
after = (json.dumps(a), json.dumps(b))
keys_after = list(a.cells[0].outputs[0].keys())

if before != after:
    print("VIOLATION C13: diff_notebooks changed the JSON serialisation of its inputs")
    print("  output keys before:", keys_before)
    print("  output keys after: ", keys_after)
    print("  base changed:", before[0] != after[0], " remote changed:", before[1] != after[1])
    sys.exit(1)
print("ok")
