"""C13: the diff returned by diff_notebooks / diff shares mutable sub-objects with the
second input (added cells, outputs, dict values are stored by reference).  Editing the
returned diff (e.g. stripping outputs from it before sending it to a client) silently
edits notebook b, so recomputing the diff from the same objects gives another result."""
import copy, json, sys
import nbformat
from nbformat.v4 import new_notebook, new_code_cell, new_output
from nbdime import diff_notebooks, diff


def nb(cells, meta=None):
    n = new_notebook(metadata=meta or {})
    n.nbformat_minor = 4
    for c in cells:
        c.pop("id", None)
    n.cells = cells
    nbformat.validate(n)
    return n


a = nb([new_code_cell("keep")])
b = nb([new_code_cell("keep"),
        new_code_cell("print(1)", outputs=[new_output("stream", text="1\n")])],
       meta={"extra": {"k": [1, 2]}})
b_before = json.dumps(b, sort_keys=True)
d1 = diff_notebooks(a, b)
d1_before = json.dumps(d1, sort_keys=True)

problems = []
# 1. list insert: the added cell in the diff *is* b's cell
for e in d1:
    if e.key == "cells":
        for f in e.diff:
            if f.op == "addrange":
                for cell in f.valuelist:
                    cell["outputs"] = []          # lighten the diff
    if e.key == "metadata":
        for f in e.diff:
            if f.op == "add":
                f.value["k"].append(3)            # dict 'add' value is b's object too
if json.dumps(b, sort_keys=True) != b_before:
    problems.append("mutating the diff returned by diff_notebooks changed notebook b: "
                    "outputs of b.cells[1] = %r, b.metadata = %r" % (b.cells[1].outputs, dict(b.metadata)))
d2 = diff_notebooks(a, b)
d1_fresh = json.loads(d1_before)
if json.dumps(d2, sort_keys=True) != d1_before:
    problems.append("recomputing diff_notebooks(a, b) from the same objects now gives a different diff")

# generic diff: same thing
x, y = {"l": [[1]]}, {"l": [[1], [2]], "n": {"z": 1}}
y_before = copy.deepcopy(y)
dg = diff(x, y)
for e in dg:
    if e.op == "add":
        e.value["z"] = 2
    if e.op == "patch":
        for f in e.diff:
            if f.op == "addrange":
                f.valuelist[0].append(99)
if y != y_before:
    problems.append("generic diff(): mutating the result changed input b: %r" % (y,))

if problems:
    print("VIOLATION C13 (result aliases input):")
    for p in problems:
        print("  -", p)
    sys.exit(1)
print("ok")
