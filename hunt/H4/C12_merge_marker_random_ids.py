"""C12: merging is not a function of its inputs.  With the default (inline) strategy,
conflicting non-similar inserted cells are wrapped in marker cells created with
nbformat.v4.new_markdown_cell(), which draws a random cell id; in a notebook with
cell ids (nbformat 4.5) the same merge_notebooks call therefore returns a different
merged notebook (and different decisions) every time / in every interpreter."""
import json, sys
import nbformat
from nbformat.v4 import new_notebook, new_code_cell, new_markdown_cell
from nbdime import merge_notebooks


def nb(cells):
    n = new_notebook(cells=cells)
    n.nbformat_minor = 5
    nbformat.validate(n)
    return n


base = nb([new_code_cell("keep", id="c0")])
local = nb([new_code_cell("keep", id="c0"),
            new_code_cell("local new cell completely different text", id="c1")])
remote = nb([new_code_cell("keep", id="c0"),
             new_markdown_cell("# remote heading, nothing alike", id="c2")])

m1, d1 = merge_notebooks(base, local, remote)
m2, d2 = merge_notebooks(base, local, remote)
nbformat.validate(m1)
nbformat.validate(m2)
if json.dumps(m1, sort_keys=True) != json.dumps(m2, sort_keys=True) or \
        json.dumps(d1, sort_keys=True) != json.dumps(d2, sort_keys=True):
    print("VIOLATION C12: two identical merge_notebooks calls give different results")
    print("  cell ids, 1st call:", [c.get("id") for c in m1.cells])
    print("  cell ids, 2nd call:", [c.get("id") for c in m2.cells])
    sys.exit(1)
print("ok")
