"""C12 (options in force): copying the notebook diff configuration silently drops the
ignore options.  DiffConfig.__copy__ uses defaultdict2.copy(), and defaultdict.copy()
re-creates the object as type(self)(default_factory, self), which defaultdict2.__init__
takes as (default_factory, default_values) -- the explicitly set keys (= the ignore
options) are lost.  merging/generic.py:_split_addrange diffs concurrently inserted
cells with copy.copy(notebook_config), so under e.g. --ignore-metadata that internal
diff is not the diff the options in force prescribe: two inserted cells that
diff_notebooks reports as identical are reported as a conflict by the merge."""
import copy, sys
import nbformat
from nbformat.v4 import new_notebook, new_code_cell
from nbdime import merge_notebooks, diff_notebooks, diff
from nbdime.diffing.notebooks import (
    notebook_config, set_notebook_diff_targets, reset_notebook_differ)


def nb(cells):
    n = new_notebook()
    n.nbformat_minor = 4
    for c in cells:
        c.pop("id", None)
    n.cells = cells
    nbformat.validate(n)
    return n


base = nb([new_code_cell("keep")])
local = nb([new_code_cell("keep"), new_code_cell("new cell with some text", metadata={"tags": ["l"]})])
remote = nb([new_code_cell("keep"), new_code_cell("new cell with some text", metadata={"tags": ["r"]})])

problems = []
set_notebook_diff_targets(metadata=False)          # == nbdiff/nbmerge --ignore-metadata
try:
    d_public = diff_notebooks(local, remote)
    d_orig = diff(local.cells, remote.cells, path="/cells", config=notebook_config)
    d_copy = diff(local.cells, remote.cells, path="/cells", config=copy.copy(notebook_config))
    if d_orig != d_copy:
        problems.append("diff with copy.copy(notebook_config) = %r but with notebook_config = %r"
                        % (d_copy, d_orig))
    merged, decisions = merge_notebooks(base, local, remote)
    conflicts = [d for d in decisions if d.conflict]
    if not d_public and conflicts:
        problems.append("with metadata ignored diff_notebooks(local, remote) == [] yet the merge "
                        "reports %d conflict(s); similar_insert diff = %r"
                        % (len(conflicts), conflicts[0].get("similar_insert")))
finally:
    reset_notebook_differ()

if problems:
    print("VIOLATION C12 (ignore options not honoured by copied config):")
    for p in problems:
        print("  -", p)
    sys.exit(1)
print("ok")
