"""C13: patch() inserts the values carried by the diff (add / replace / addrange)
into its result by reference.  Editing the patched object therefore edits the diff
that was passed in, and applying the same diff again gives a different result."""
import copy, json, sys
import nbformat
from nbformat.v4 import new_notebook, new_code_cell, new_output
from nbdime import diff_notebooks, patch
from nbdime.diff_format import op_add, op_addrange, op_patch, op_replace


def nb(cells):
    n = new_notebook()
    n.nbformat_minor = 4
    for c in cells:
        c.pop("id", None)
    n.cells = cells
    nbformat.validate(n)
    return n


a = nb([new_code_cell("keep")])
b = nb([new_code_cell("keep"),
        new_code_cell("print(1)", outputs=[new_output("stream", text="1\n")])])
d = copy.deepcopy(diff_notebooks(a, b))      # independent diff object
d_before = json.dumps(d, sort_keys=True)

p1 = patch(a, d)
nbformat.validate(nbformat.from_dict(p1))
p1_before = json.dumps(p1, sort_keys=True)
# user post-processes the patched notebook: clear outputs
for cell in p1["cells"]:
    if cell["cell_type"] == "code":
        cell["outputs"] = []
        cell["execution_count"] = None

problems = []
if json.dumps(d, sort_keys=True) != d_before:
    problems.append("editing patch(a, d) changed the diff d that was passed in")
p2 = patch(a, d)
if json.dumps(p2, sort_keys=True) != p1_before:
    problems.append("patch(a, d) applied a second time gives a different notebook "
                    "(outputs of added cell: %r)" % (p2["cells"][1]["outputs"],))

# generic: dict add/replace and list addrange
base = {"k": [0], "r": 1}
gd = [op_add("n", {"z": [1]}), op_replace("r", [5]), op_patch("k", [op_addrange(1, [[7]])])]
gd_before = copy.deepcopy(gd)
g = patch(base, gd)
g["n"]["z"].append(2); g["r"].append(6); g["k"][1].append(8)
if gd != gd_before:
    problems.append("generic patch(): editing the result changed the diff: %r" % (gd,))

if problems:
    print("VIOLATION C13 (patch result aliases the diff):")
    for p in problems:
        print("  -", p)
    sys.exit(1)
print("ok")
