"""C13 (every argument is snapshotted): pretty_print_notebook() writes the language of
the notebook it prints into the PrettyPrintConfig it was given (config.language), and
the default for that argument is the module-wide prettyprint.DefaultConfig.  So the
call modifies an argument, and the rendering of the next notebook depends on which
notebook was printed before (its sources are highlighted with the first notebook's
lexer) instead of on the notebook alone."""
import io, sys
import nbformat
from nbformat.v4 import new_notebook, new_code_cell
from nbdime.prettyprint import pretty_print_notebook, PrettyPrintConfig, DefaultConfig


def nb(lang, src):
    n = new_notebook(metadata={"language_info": {"name": lang}})
    n.nbformat_minor = 4
    c = new_code_cell(src)
    c.pop("id", None)
    n.cells = [c]
    nbformat.validate(n)
    return n


py = nb("python", "def f(x):\n    return None  # comment\n")
rr = nb("r", "f <- function(x) {\n  NULL  # comment\n}\n")


def render(notebook, config):
    config.out = io.StringIO()
    pretty_print_notebook(notebook, config)
    return config.out.getvalue()


problems = []
fresh = render(rr, PrettyPrintConfig())

cfg = PrettyPrintConfig()
before = dict(vars(cfg), out=None)
render(py, cfg)
after = dict(vars(cfg), out=None)
if before != after:
    changed = {k: (before[k], after[k]) for k in before if before[k] != after[k]}
    problems.append("pretty_print_notebook modified its config argument: %r" % (changed,))
second = render(rr, cfg)
if second != fresh:
    problems.append("R notebook printed after a Python notebook (same config) renders differently "
                    "from a first print:\n      fresh : %r\n      second: %r" % (fresh, second))

# same through the default argument (shared module-level object)
lang0 = DefaultConfig.language
old_out = DefaultConfig.out
DefaultConfig.out = io.StringIO()
try:
    pretty_print_notebook(py)
finally:
    DefaultConfig.out = old_out
if DefaultConfig.language != lang0:
    problems.append("after pretty_print_notebook(nb) the shared DefaultConfig.language is %r (was %r): "
                    "later default-config prints in this process use that lexer"
                    % (DefaultConfig.language, lang0))
    DefaultConfig.language = lang0

if problems:
    print("VIOLATION C13/C12 (pretty-printing modifies its config; output depends on history):")
    for p in problems:
        print("  -", p)
    sys.exit(1)
print("ok")
