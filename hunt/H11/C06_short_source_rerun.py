"""C06: notebook without cell ids whose first two cells have short sources.

local  re-runs cells 0 and 1 (cell 0 loses its output, cell 1 gets one); sources untouched
remote edits   cell 2 only (adds a line)            -- variant 1
remote deletes cell 2 only                          -- variant 2

Disjoint changes -> expected: no conflict, merged == base with both sets of
changes.  Observed: a conflict is reported in both variants.
"""
import copy, json, logging, sys
logging.disable(logging.CRITICAL)
import nbformat
from nbformat.v4 import new_notebook, new_code_cell, new_output
from nbdime.merging.notebooks import merge_notebooks


def canon(x):
    if isinstance(x, dict):
        return ('d', tuple(sorted((k, canon(v)) for k, v in x.items())))
    if isinstance(x, (list, tuple)):
        return ('l', tuple(canon(v) for v in x))
    return (type(x).__name__, x)


def cell(source, execution_count=None, outputs=()):
    c = new_code_cell(source=source, execution_count=execution_count, outputs=list(outputs))
    c.pop("id", None)
    return c


def nb(cells):
    n = new_notebook()
    n.nbformat_minor = 4
    n.cells = copy.deepcopy(cells)
    nbformat.validate(copy.deepcopy(n))
    return n


a0 = cell("a", 1, [new_output("stream", name="stdout", text="hello\n")])
b0 = cell("b")
c0 = cell("total = compute(a, b)", 3)
a1 = cell("a")                                                   # re-run: output gone
b1 = cell("b", 2, [new_output("execute_result", data={"text/plain": "2"}, execution_count=2)])
c1 = cell("total = compute(a, b)\nprint(total)", 3)

base = nb([a0, b0, c0])
local = nb([a1, b1, c0])
variants = {
    "remote edits cell 2": (nb([a0, b0, c1]), nb([a1, b1, c1])),
    "remote deletes cell 2": (nb([a0, b0]), nb([a1, b1])),
}

failures = []
for name, (remote, expected) in variants.items():
    for roles, (l, r) in {"": (local, remote), " (roles swapped)": (remote, local)}.items():
        merged, decisions = merge_notebooks(copy.deepcopy(base), copy.deepcopy(l), copy.deepcopy(r), None)
        conflict = any(d.conflict for d in decisions)
        if conflict or canon(merged) != canon(expected):
            failures.append("%s%s: conflict=%s, merged sources=%r (expected %r)" % (
                name, roles, conflict, [c.source for c in merged.cells], [c.source for c in expected.cells]))

if failures:
    print("C06 VIOLATED: local re-ran cells 0,1 and remote changed only cell 2, yet:")
    for f in failures:
        print("  " + f)
    sys.exit(1)
print("ok")
sys.exit(0)
