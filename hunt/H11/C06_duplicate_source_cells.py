"""C06 (also C07-style silent damage): cells with the same source but different
execution_count / metadata, notebook without cell ids (nbformat 4.4).

local  deletes the SECOND of two such cells (the other side never touches it)
remote edits   the FIRST  of them (adds a line to its source)

Disjoint changes -> expected: no conflict, merged == [edited first cell].
Observed: no conflict, but the deleted cell is back (with the execution_count
of the first cell): the merge silently un-does the deletion.
"""
import copy, json, logging, sys
logging.disable(logging.CRITICAL)
import nbformat
from nbformat.v4 import new_notebook, new_code_cell
from nbdime.merging.notebooks import merge_notebooks


def canon(x):
    if isinstance(x, dict):
        return ('d', tuple(sorted((k, canon(v)) for k, v in x.items())))
    if isinstance(x, (list, tuple)):
        return ('l', tuple(canon(v) for v in x))
    return (type(x).__name__, x)


def cell(source, execution_count):
    c = new_code_cell(source=source, execution_count=execution_count)
    c.pop("id", None)
    return c


def nb(cells):
    n = new_notebook()
    n.nbformat_minor = 4
    n.cells = copy.deepcopy(cells)
    nbformat.validate(copy.deepcopy(n))   # input must be a valid notebook
    return n


first, second = cell("x = f()", 1), cell("x = f()", 2)
first_edited = cell("x = f()\ny = 1", 1)

base = nb([first, second])
local = nb([first])                    # deleted the second cell
remote = nb([first_edited, second])    # edited the first cell
expected = nb([first_edited])          # by construction

failures = []
for name, (l, r) in {"local deletes / remote edits": (local, remote),
                     "roles swapped": (remote, local)}.items():
    snapshot = copy.deepcopy((base, l, r))
    merged, decisions = merge_notebooks(base, l, r, None)
    assert canon(snapshot) == canon((base, l, r)), "inputs were modified"
    conflict = any(d.conflict for d in decisions)
    if conflict or canon(merged) != canon(expected):
        failures.append("%s: conflict=%s, merged cells:\n%s" % (
            name, conflict,
            "\n".join("    " + json.dumps(c, sort_keys=True) for c in merged.cells)))

if failures:
    print("C06 VIOLATED: disjoint changes (delete cell 1 / edit cell 0) do not merge into both changes")
    print("expected cells:\n" + "\n".join("    " + json.dumps(c, sort_keys=True) for c in expected.cells))
    for f in failures:
        print(f)
    sys.exit(1)
print("ok")
sys.exit(0)
