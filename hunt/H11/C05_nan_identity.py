"""C05 identity clause: merge(b, b, b) must be b without conflicts.

A notebook whose JSON payload contains NaN (Python's json / nbformat read,
write and validate it; e.g. an application/json output or a metadata value
coming from numpy/pandas) is reported as conflicting with itself.
Also the generic JSON merge: decide_merge(d, d, d) with d = {"v": NaN}.
"""
import copy, logging, math, sys
logging.disable(logging.CRITICAL)
import nbformat
from nbdime.merging.notebooks import merge_notebooks
from nbdime.merging.generic import decide_merge
from nbdime.merging.decisions import apply_decisions

TEXT = """{
 "cells": [
  {"cell_type": "code", "execution_count": 1, "id": "c1", "metadata": {},
   "outputs": [
    {"output_type": "display_data", "metadata": {},
     "data": {"application/json": {"mean": NaN}, "text/plain": ["nan"]}}
   ],
   "source": ["show(stats)"]}
 ],
 "metadata": {}, "nbformat": 4, "nbformat_minor": 5
}"""


def same(x, y):
    "deep equality where NaN equals NaN and bool/int/float are told apart"
    if isinstance(x, dict) and isinstance(y, dict):
        return x.keys() == y.keys() and all(same(x[k], y[k]) for k in x)
    if isinstance(x, list) and isinstance(y, list):
        return len(x) == len(y) and all(same(a, b) for a, b in zip(x, y))
    if type(x) is not type(y):
        return False
    if isinstance(x, float) and math.isnan(x) and math.isnan(y):
        return True
    return x == y


problems = []

base = nbformat.reads(TEXT, as_version=4)
nbformat.validate(copy.deepcopy(base))          # the input is a valid notebook
for strategy in (None, "mergetool"):
    if strategy is None:
        args = None
    else:
        class args:
            merge_strategy = strategy; input_strategy = None; output_strategy = None
            ignore_transients = True; log_level = "INFO"
    b, l, r = nbformat.reads(TEXT, as_version=4), nbformat.reads(TEXT, as_version=4), nbformat.reads(TEXT, as_version=4)
    merged, decisions = merge_notebooks(b, l, r, args)
    conflicts = [d for d in decisions if d.conflict]
    if conflicts:
        problems.append("notebook, strategy %s: merge(b,b,b) reports %d conflict(s) at %s" % (
            strategy or "default", len(conflicts), [d.common_path for d in conflicts]))
    if not same(merged, base):
        problems.append("notebook, strategy %s: merge(b,b,b) != b, outputs of cell 0 now: %r" % (
            strategy or "default", [o.get("text", o.get("data")) for o in merged.cells[0].outputs]))

doc = {"v": float("nan"), "w": [1, 2]}
dec = decide_merge(copy.deepcopy(doc), copy.deepcopy(doc), copy.deepcopy(doc))
if any(d.conflict for d in dec):
    problems.append("generic: decide_merge(d,d,d) with d={'v': nan, ...} reports a conflict: %r" % (
        [dict(d) for d in dec if d.conflict],))
# one-sided adoption is affected as well: the untouched side 'changes' v too
x = {"v": float("nan"), "w": [1, 2, 3]}
dec = decide_merge(copy.deepcopy(doc), copy.deepcopy(x), copy.deepcopy(doc))
if any(d.conflict for d in dec) or not same(apply_decisions(doc, dec), x):
    problems.append("generic: merge(b, x, b) with an untouched NaN in b is not a conflict-free adoption of x")

if problems:
    print("C05 VIOLATED (identity / one-sided adoption):")
    for p in problems:
        print("  " + p)
    sys.exit(1)
print("ok")
sys.exit(0)
