"""C14: diffing fails outright (so no empty diff) for notebooks whose output
carries a scalar JSON payload, e.g. {"application/json": 1} -- which the nbformat
schema allows (any JSON type for *json mimetypes).

Two notebooks that differ only in ignored metadata (-M) -- or that are byte
identical -- must give an empty diff; instead add_mime_diff() sends the two
scalars to generic diff(), which raises RuntimeError.
"""
import sys, copy
import nbformat
from nbformat import v4


def nb(cell_md):
    out = v4.new_output('display_data', data={'application/json': 1, 'text/plain': '1'})
    c = v4.new_code_cell('display(JSON(1))', outputs=[out], metadata=cell_md)
    c.pop('id', None)
    n = nbformat.from_dict(dict(nbformat=4, nbformat_minor=4, metadata={}, cells=[c]))
    nbformat.validate(n)
    return n


a, b = nb({}), nb({'collapsed': True})

from nbdime.diffing.notebooks import diff_notebooks, set_notebook_diff_targets

bad = []
set_notebook_diff_targets(metadata=False)
try:
    d = diff_notebooks(a, b)
    if d:
        bad.append('-M: non-empty diff %r' % (d,))
except Exception as e:
    bad.append('-M, notebooks differ only in cell metadata: %s: %s' % (type(e).__name__, e))
set_notebook_diff_targets()
try:
    d = diff_notebooks(a, copy.deepcopy(a))
    if d:
        bad.append('identical notebooks: non-empty diff %r' % (d,))
except Exception as e:
    bad.append('identical notebooks, no ignore flags: %s: %s' % (type(e).__name__, e))
if bad:
    print('C14 VIOLATED: expected an empty diff')
    for m in bad:
        print('  ' + m)
    sys.exit(1)
print('ok')
sys.exit(0)
