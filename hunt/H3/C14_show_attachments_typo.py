"""C14: ignoring attachments does not hide them in terminal rendering.

pretty_print_cell() has exclude_keys = {..., 'attachment'} (missing "s"), so the
"anything we haven't special-cased" fallback prints the `attachments` dict
whenever details are shown, regardless of config.attachments.
 - `nbshow -A nb.ipynb` still prints the attachments,
 - `nbshow nb.ipynb` prints them twice,
 - `nbdiff -A` prints the attachments of every inserted/deleted cell.
"""
import io, os, sys, tempfile, contextlib
import nbformat
from nbformat import v4

PNG = 'iVBORw0KGgo='
c = v4.new_markdown_cell('![x](attachment:x.png)')
c.pop('id', None)
c['attachments'] = {'x.png': {'image/png': PNG}}
n = nbformat.from_dict(dict(nbformat=4, nbformat_minor=4, metadata={}, cells=[c]))
nbformat.validate(n)
empty = nbformat.from_dict(dict(nbformat=4, nbformat_minor=4, metadata={}, cells=[]))
nbformat.validate(empty)
td = tempfile.mkdtemp()
fn = os.path.join(td, 'nb.ipynb'); nbformat.write(n, fn)
fe = os.path.join(td, 'empty.ipynb'); nbformat.write(empty, fe)

from nbdime import nbshowapp, nbdiffapp


def run(main, argv):
    buf = io.StringIO()
    with contextlib.redirect_stdout(buf):
        main(argv)
    return buf.getvalue()


bad = []
o = run(nbshowapp.main, ['--ignore-attachments', fn])
if 'x.png' in o or PNG in o:
    bad.append('nbshow --ignore-attachments still shows the attachment:\n' + o)
o = run(nbshowapp.main, [fn])
if o.count('x.png:') > 1:
    bad.append('nbshow (no flags) shows the attachment %d times' % o.count('x.png:'))
o = run(nbdiffapp.main, ['--ignore-attachments', '--no-color', fe, fn])
if PNG in o:
    bad.append('nbdiff --ignore-attachments shows the attachment of an inserted cell:\n' + o)
if bad:
    print('C14 VIOLATED:')
    for m in bad:
        print(m)
    sys.exit(1)
print('ok')
sys.exit(0)
