"""C16: ANSI escape codes are emitted with colour disabled (--no-color) when the
user's git configuration forces colour (color.ui=always / color.diff=always).

diff_render_with_git() only *removes* --color-words from the git command line
when use_color is False; it never passes --no-color, so git's own colour
setting decides.  The git config is injected here via GIT_CONFIG_* environment
variables (equivalent to `git config --global color.ui always`).
"""
import io, os, sys, shutil
import nbformat
from nbformat import v4

if not shutil.which('git'):
    print('git not available; skipping')
    sys.exit(0)

os.environ['GIT_CONFIG_COUNT'] = '1'
os.environ['GIT_CONFIG_KEY_0'] = 'color.ui'
os.environ['GIT_CONFIG_VALUE_0'] = 'always'


def nb(src):
    n = nbformat.from_dict(dict(nbformat=4, nbformat_minor=4, metadata={}, cells=[v4.new_code_cell(src)]))
    n.cells[0].pop('id', None)
    nbformat.validate(n)
    return n


a, b = nb('a\nb\n'), nb('a\nc\n')

from nbdime.diffing.notebooks import diff_notebooks
from nbdime.prettyprint import pretty_print_notebook_diff, PrettyPrintConfig

d = diff_notebooks(a, b)
out = io.StringIO()
pretty_print_notebook_diff('a.ipynb', 'b.ipynb', a, d, PrettyPrintConfig(out=out, use_color=False))
if '\x1b' in out.getvalue():
    print('C16 VIOLATED: use_color=False but output contains ANSI escapes:')
    print(repr(out.getvalue()))
    sys.exit(1)
print('ok')
sys.exit(0)
