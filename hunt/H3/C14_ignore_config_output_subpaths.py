"""C14: 'Ignore' configuration entries for paths below a single output are
silently not honoured.

nbdime_config.json: {"NbDiff": {"Ignore": {"/cells/*/outputs/*/data": true,
                                           "/cells/*/outputs/*/text": true}}}
 - diff_single_outputs() calls diff_mime_bundle(a.data, b.data) directly instead
   of looking up the configured differ for /cells/*/outputs/*/data;
 - for stream/error outputs it calls diff(a, b, config=config) WITHOUT the path,
   so the sub-paths become "/text", "/name", ... and no /cells/*/outputs/*/...
   entry can ever match.
The same mapping works for e.g. "/cells/*/outputs/*/metadata" (checked below as
a control), so the mechanism itself is supported.
"""
import io, os, sys, json, tempfile, contextlib
import nbformat
from nbformat import v4

td = tempfile.mkdtemp()
os.environ['JUPYTER_CONFIG_DIR'] = os.path.join(td, 'jcfg')
os.chdir(td)
with open('nbdime_config.json', 'w') as f:
    json.dump({'NbDiff': {'Ignore': {
        '/cells/*/outputs/*/data': True,
        '/cells/*/outputs/*/text': True,
        '/cells/*/outputs/*/metadata': True,
    }}}, f)


def nb(dtext, stext, mdval):
    outs = [v4.new_output('display_data', data={'text/plain': dtext}, metadata={'k': mdval}),
            v4.new_output('stream', name='stdout', text=stext)]
    c = v4.new_code_cell('run()', outputs=outs)
    c.pop('id', None)
    n = nbformat.from_dict(dict(nbformat=4, nbformat_minor=4, metadata={}, cells=[c]))
    nbformat.validate(n)
    return n


a = nb('value A', 'a fairly long line of log output, run 1\n', 1)
b = nb('value B', 'a fairly long line of log output, run 2\n', 2)
nbformat.write(a, 'a.ipynb'); nbformat.write(b, 'b.ipynb')

from nbdime import nbdiffapp
from nbdime.diffing.notebooks import diff_notebooks

args = nbdiffapp._build_arg_parser(prog='nbdiff').parse_args(['--no-color', 'a.ipynb', 'b.ipynb'])  # loads the config
buf = io.StringIO()
with contextlib.redirect_stdout(buf):
    nbdiffapp.main_diff(args)
out = buf.getvalue()
bad = []
if '/outputs/0/metadata' in out:
    print('control failed: config not loaded?'); print(out); sys.exit(0)
if '/cells/0/outputs/0/data' in out:
    bad.append("Ignore['/cells/*/outputs/*/data'] = true, but data changes are reported")
if '/cells/0/outputs/1/text' in out:
    bad.append("Ignore['/cells/*/outputs/*/text'] = true, but stream text changes are reported")
if bad:
    print('C14 VIOLATED:')
    for m in bad:
        print('  ' + m)
    print(out)
    sys.exit(1)
print('ok')
sys.exit(0)
