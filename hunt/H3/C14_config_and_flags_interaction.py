"""C14: ignore settings from configuration are lost or crash when combined with a
command line flag.

(1) nbdime_config.json {"NbDiff": {"Ignore": {"/cells/*/metadata": ["collapsed"]}}}
    hides changes of the `collapsed` key -- until ANY ignorable flag is given:
    `nbdiff -S` (ignore sources, unrelated to metadata) makes
    set_notebook_diff_targets() reset '/cells/*/metadata' to the default differ,
    so the configured ignore silently stops working.
(2) nbdime_config.json {"NbDiff": {"metadata": false}} together with the
    positive flag `-s`: process_exclusive_ignorables() raises
    argparse.ArgumentError from main_diff(), outside argparse -> raw traceback
    instead of a diff or a usage error.
"""
import io, os, sys, json, tempfile, contextlib
import nbformat
from nbformat import v4

td = tempfile.mkdtemp()
os.environ['JUPYTER_CONFIG_DIR'] = os.path.join(td, 'jcfg')
os.chdir(td)


def nb(collapsed):
    c = v4.new_code_cell('x = 1', metadata={'collapsed': collapsed})
    c.pop('id', None)
    n = nbformat.from_dict(dict(nbformat=4, nbformat_minor=4, metadata={}, cells=[c]))
    nbformat.validate(n)
    return n


nbformat.write(nb(True), 'a.ipynb'); nbformat.write(nb(False), 'b.ipynb')

from nbdime import nbdiffapp
from nbdime.diffing.notebooks import reset_notebook_differ


def run(cfg, flags):
    reset_notebook_differ()
    with open('nbdime_config.json', 'w') as f:
        json.dump(cfg, f)
    args = nbdiffapp._build_arg_parser(prog='nbdiff').parse_args(flags + ['--no-color', 'a.ipynb', 'b.ipynb'])
    buf = io.StringIO()
    with contextlib.redirect_stdout(buf):
        nbdiffapp.main_diff(args)
    return buf.getvalue()


bad = []
cfg = {'NbDiff': {'Ignore': {'/cells/*/metadata': ['collapsed']}}}
o0 = run(cfg, [])
o1 = run(cfg, ['--ignore-sources'])
if 'collapsed' in o0:
    print('control failed (config not honoured at all)'); print(o0); sys.exit(0)
if 'collapsed' in o1:
    bad.append("(1) Ignore['/cells/*/metadata']=['collapsed'] honoured without flags, but with --ignore-sources the key is reported:\n" + o1)
try:
    run({'NbDiff': {'metadata': False}}, ['--sources'])
except SystemExit:
    pass  # a clean argparse usage error would be acceptable
except Exception as e:
    bad.append('(2) config metadata=false + --sources: uncaught %s: %s' % (type(e).__name__, e))
if bad:
    print('C14 VIOLATED:')
    for m in bad:
        print(m)
    sys.exit(1)
print('ok')
sys.exit(0)
