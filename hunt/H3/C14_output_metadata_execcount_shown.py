"""C14: output-level metadata and execution_count are printed although metadata /
details are ignored.

pretty_print_output() never consults the config: it prints `execution_count`
and "metadata (known/unknown keys)" of every output unconditionally.  Affects
`nbshow -M`, `nbshow -D`, and `nbdiff -M` / `nbdiff -D` for every inserted or
deleted cell/output.
"""
import io, os, sys, tempfile, contextlib
import nbformat
from nbformat import v4

o = v4.new_output('execute_result', data={'text/plain': 'result'}, metadata={'secretkey': 'secretvalue'}, execution_count=4242)
c = v4.new_code_cell('f()', outputs=[o], execution_count=4242)
c.pop('id', None)
n = nbformat.from_dict(dict(nbformat=4, nbformat_minor=4, metadata={}, cells=[c]))
nbformat.validate(n)
empty = nbformat.from_dict(dict(nbformat=4, nbformat_minor=4, metadata={}, cells=[]))
td = tempfile.mkdtemp()
fn = os.path.join(td, 'nb.ipynb'); nbformat.write(n, fn)
fe = os.path.join(td, 'empty.ipynb'); nbformat.write(empty, fe)

from nbdime import nbshowapp, nbdiffapp


def run(main, argv):
    buf = io.StringIO()
    with contextlib.redirect_stdout(buf):
        main(argv)
    return buf.getvalue()


bad = []
for name, main, argv in (('nbshow', nbshowapp.main, [fn]), ('nbdiff', nbdiffapp.main, ['--no-color', fe, fn])):
    out = run(main, ['--ignore-metadata'] + argv)
    if 'secretkey' in out:
        bad.append('%s --ignore-metadata prints output metadata:\n%s' % (name, out))
    out = run(main, ['--ignore-details'] + argv)
    if '4242' in out:
        bad.append('%s --ignore-details prints the output execution_count:\n%s' % (name, out))
if bad:
    print('C14 VIOLATED:')
    for m in bad:
        print(m)
    sys.exit(1)
print('ok')
sys.exit(0)
