"""C16: rendering a source diff fails with --color-words when the text contains
three or more lines reading "\\ No newline at end of file" (marker text).

external_diff_render() strips every output line matching
r"^\\\\ No newline at end of file" and asserts that at most two were found.
With `git diff --color-words` unchanged lines carry no +/-/space prefix, so
content lines match the regex too: 1-2 such lines are silently dropped from the
rendering, 3 trip the assertion.
"""
import io, sys, shutil
import nbformat
from nbformat import v4

if not shutil.which('git'):
    print('git not available, cannot exercise the git renderer; skipping')
    sys.exit(0)

M = '\\ No newline at end of file\n'


def nb(src):
    n = nbformat.from_dict(dict(nbformat=4, nbformat_minor=4, metadata={}, cells=[v4.new_code_cell(src)]))
    n.cells[0].pop('id', None)
    nbformat.validate(n)
    return n


a, b = nb(M * 3 + 'x\n'), nb(M * 3 + 'y\n')

from nbdime.diffing.notebooks import diff_notebooks
from nbdime.prettyprint import pretty_print_notebook_diff, PrettyPrintConfig

d = diff_notebooks(a, b)
out = io.StringIO()
cfg = PrettyPrintConfig(out=out, use_color=True, color_words=True, use_git=True)
try:
    pretty_print_notebook_diff('a.ipynb', 'b.ipynb', a, d, cfg)
except Exception as e:
    print('C16 VIOLATED: nbdiff --color-words rendering raised %s: %s' % (type(e).__name__, e))
    sys.exit(1)
if out.getvalue().count('No newline at end of file') < 3:
    print('C16 VIOLATED (silent variant): content lines were dropped from the rendering:\n' + out.getvalue())
    sys.exit(1)
print('ok')
sys.exit(0)
