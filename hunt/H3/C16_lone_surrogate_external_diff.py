"""C16: rendering fails with the git and diff renderers when a multi-line string
contains a lone surrogate (JSON "\\ud800", accepted by nbformat.read/validate).

external_diff_render() writes the texts to temp files with strict utf8 encoding
-> UnicodeEncodeError.  The built-in difflib renderer handles the same input.
"""
import io, os, sys, json, tempfile, shutil
import nbformat

if not (shutil.which('git') or shutil.which('diff')):
    print('no external diff tool; skipping')
    sys.exit(0)

td = tempfile.mkdtemp()


def nb(fn, src):
    # write the raw JSON (escaped surrogate), read back through nbformat like nbdiff does
    raw = dict(nbformat=4, nbformat_minor=4, metadata={}, cells=[
        dict(cell_type='code', metadata={}, execution_count=None, outputs=[], source=src)])
    fn = os.path.join(td, fn)
    with open(fn, 'w') as f:
        json.dump(raw, f)          # ensure_ascii -> "\ud800" escape, a valid JSON file
    n = nbformat.read(fn, as_version=4)
    nbformat.validate(n)
    return n


a = nb('a.ipynb', 'x = "\ud800"\ny = 1\n')
b = nb('b.ipynb', 'x = "\ud800"\ny = 2\n')

from nbdime.diffing.notebooks import diff_notebooks
from nbdime.prettyprint import pretty_print_notebook_diff, PrettyPrintConfig

d = diff_notebooks(a, b)
fails = []
for name, kw in (('git', dict(use_git=True)), ('diff', dict(use_git=False, use_diff=True)),
                 ('difflib', dict(use_git=False, use_diff=False))):
    try:
        pretty_print_notebook_diff('a', 'b', a, d, PrettyPrintConfig(out=io.StringIO(), use_color=False, **kw))
    except Exception as e:
        fails.append('%s renderer: %s: %s' % (name, type(e).__name__, e))
if fails:
    print('C16 VIOLATED: rendering raised')
    for f in fails:
        print('  ' + f)
    sys.exit(1)
print('ok')
sys.exit(0)
