"""C14/C16: "details" ignored (-D) but a change of nbformat_minor is still in the diff.

The terminal printer classifies /nbformat* as a detail
(PrettyPrintConfig.should_ignore_path) and hides it, but
set_notebook_diff_targets(details=False) only filters `execution_count`, so
diff_notebooks() still reports replace(nbformat_minor).  Result: `nbdiff -D`
prints the three header lines and no body; `nbdiff -D --out` records the change.
"""
import io, sys
import nbformat
from nbformat import v4


def nb(minor):
    c = v4.new_code_cell('x = 1')
    c.pop('id', None)
    n = nbformat.from_dict(dict(nbformat=4, nbformat_minor=minor, metadata={}, cells=[c]))
    nbformat.validate(n)
    return n


a, b = nb(2), nb(4)

from nbdime.nbdiffapp import _build_arg_parser
from nbdime.args import process_diff_flags, prettyprint_config_from_args
from nbdime.diffing.notebooks import diff_notebooks
from nbdime.prettyprint import pretty_print_notebook_diff

args = _build_arg_parser().parse_args(['--ignore-details', '--no-color', 'a.ipynb', 'b.ipynb'])
process_diff_flags(args)
d = diff_notebooks(a, b)
out = io.StringIO()
pretty_print_notebook_diff('a.ipynb', 'b.ipynb', a, d, prettyprint_config_from_args(args, out=out))
lines = out.getvalue().splitlines()
if d and len(lines) <= 3:
    print('C14/C16 VIOLATED with --ignore-details: diffing layer and printer disagree on what a "detail" is')
    print('  diff   : %r' % (d,))
    print('  printed: %r  (header only, nothing for the reader)' % out.getvalue())
    sys.exit(1)
print('ok')
sys.exit(0)
