"""C14: with attachments ignored (-A / --ignore-attachments) two notebooks that
differ ONLY in attachments still give a non-empty diff.

a: markdown cell without an `attachments` key; b: same cell with an attachments
dict (what JupyterLab writes after pasting an image, or `{}` after removing it).
The ignore is installed as a differ for the path /cells/*/attachments, which is
only consulted when the key exists on BOTH sides; a key that is added/removed is
emitted by diff_dicts() as add/remove op at /cells/N/attachments.
Consequences: `nbdiff -A --out` records the attachment; the terminal printer
hides the entry but still prints the 3-line header for a "diff" with no body.
"""
import io, sys
import nbformat
from nbformat import v4

PNG = 'iVBORw0KGgoAAAANSUhEUgAAAAEAAAABCAYAAAAfFcSJAAAADUlEQVR42mNkYPhfDwAChwGA60e6kgAAAABJRU5ErkJggg=='


def nb(cell):
    n = nbformat.from_dict(dict(nbformat=4, nbformat_minor=4, metadata={}, cells=[cell]))
    n.cells[0].pop('id', None)
    nbformat.validate(n)
    return n


ca = v4.new_markdown_cell('hello')
cb = v4.new_markdown_cell('hello')
cb['attachments'] = {'image.png': {'image/png': PNG}}
a, b = nb(ca), nb(cb)

from nbdime.nbdiffapp import _build_arg_parser
from nbdime.args import process_diff_flags, prettyprint_config_from_args
from nbdime.diffing.notebooks import diff_notebooks
from nbdime.prettyprint import pretty_print_notebook_diff

args = _build_arg_parser().parse_args(['--ignore-attachments', '--no-color', 'a.ipynb', 'b.ipynb'])
process_diff_flags(args)
bad = []
for x, y, what in ((a, b, 'added'), (b, a, 'removed')):
    d = diff_notebooks(x, y)
    out = io.StringIO()
    pretty_print_notebook_diff('a.ipynb', 'b.ipynb', x, d, prettyprint_config_from_args(args, out=out))
    if d:
        bad.append('attachments %s: diff is not empty: %r' % (what, d))
    if out.getvalue():
        bad.append('attachments %s: printer wrote %r for a diff that only touches an ignored category' % (what, out.getvalue()))
if bad:
    print('C14 VIOLATED with --ignore-attachments:')
    for m in bad:
        print('  ' + m[:400])
    sys.exit(1)
print('ok')
sys.exit(0)
