"""C14 (no category ignored): applying the diff does not reproduce the target.

Output data under a "+json" mimetype that is not in the recursive-diff list
(e.g. application/vnd.custom+json, application/geo+json) is compared with
compare_strict(), which is only type-aware at the TOP level.  {"a": 1} vs
{"a": true} (or [1] vs [1.0]) compare equal -> empty diff although the notebooks
differ in a non-ignored output.
"""
import sys, copy, json
import nbformat
from nbformat import v4


def nb(payload):
    out = v4.new_output('display_data', data={'application/vnd.custom+json': payload})
    c = v4.new_code_cell('show()', outputs=[out])
    c.pop('id', None)
    n = nbformat.from_dict(dict(nbformat=4, nbformat_minor=4, metadata={}, cells=[c]))
    nbformat.validate(n)
    return n


from nbdime.diffing.notebooks import diff_notebooks
from nbdime.patching import patch_notebook

bad = []
for pa, pb in (({'a': 1}, {'a': True}), ([1], [1.0])):
    a, b = nb(pa), nb(pb)
    d = diff_notebooks(a, b)
    patched = patch_notebook(copy.deepcopy(a), d)
    # canonical JSON text distinguishes 1 / 1.0 / true
    if json.dumps(patched, sort_keys=True) != json.dumps(b, sort_keys=True):
        bad.append('%r -> %r: diff=%r, patched payload=%s, target payload=%s' % (
            pa, pb, d,
            json.dumps(patched.cells[0].outputs[0].data['application/vnd.custom+json']),
            json.dumps(pb)))
if bad:
    print('C14 VIOLATED: patch(a, diff(a, b)) != b in a non-ignored part')
    for m in bad:
        print('  ' + m)
    sys.exit(1)
print('ok')
sys.exit(0)
