"""C16: printing merge decisions fails for the default 'inline' strategy when
both sides insert the same cell with different (non-empty) metadata.

The inline strategy builds a `custom_diff` whose inserted cell is a plain dict
(metadata = {local_metadata:..., remote_metadata:...}); pretty_print_cell()
then does `cell.metadata` (attribute access) -> AttributeError.
"""
import io, os, sys, tempfile, contextlib
import nbformat
from nbformat import v4


def nb(cells):
    n = nbformat.from_dict(dict(nbformat=4, nbformat_minor=4, metadata={}, cells=cells))
    for c in n.cells:
        c.pop('id', None)
    nbformat.validate(n)
    return n


base = nb([])
local = nb([v4.new_code_cell('a', metadata={'k': 1})])
remote = nb([v4.new_code_cell('a', metadata={'k': 2})])

td = tempfile.mkdtemp()
fns = []
for name, n in (('base', base), ('local', local), ('remote', remote)):
    fn = os.path.join(td, name + '.ipynb')
    nbformat.write(n, fn)
    fns.append(fn)

from nbdime import nbmergeapp
try:
    with contextlib.redirect_stdout(io.StringIO()), contextlib.redirect_stderr(io.StringIO()):
        nbmergeapp.main(['--decisions', '--no-color'] + fns)   # default strategy: inline
except Exception as e:
    import traceback
    tb = traceback.extract_tb(e.__traceback__)[-1]
    print('C16 VIOLATED: nbmerge --decisions (default inline strategy) raised %s: %s at %s:%d (%s)' % (
        type(e).__name__, e, os.path.basename(tb.filename), tb.lineno, tb.name))
    sys.exit(1)
print('ok')
sys.exit(0)
