"""C16: printing merge decisions fails when both sides insert a similar cell.

base: empty notebook; local adds markdown cell 'a'; remote adds markdown cell 'b'
(short sources are considered "similar").  With --merge-strategy use-local /
use-remote / use-base the decision keeps a
`similar_insert` diff, which is a diff *between the two inserted cell lists*,
but pretty_print_merge_decision() renders it as if it were a diff on base.
"""
import io, os, sys, tempfile, contextlib, logging
import nbformat
from nbformat import v4


def nb(cells):
    n = nbformat.from_dict(dict(nbformat=4, nbformat_minor=4, metadata={}, cells=cells))
    for c in n.cells:
        c.pop('id', None)
    nbformat.validate(n)
    return n


def md(src):
    return v4.new_markdown_cell(src)


base, local, remote = nb([]), nb([md('a')]), nb([md('b')])

td = tempfile.mkdtemp()
fns = []
for name, n in (('base', base), ('local', local), ('remote', remote)):
    fn = os.path.join(td, name + '.ipynb')
    nbformat.write(n, fn)
    fns.append(fn)

from nbdime import nbmergeapp

failures = []
for strategy in ('use-local', 'use-remote', 'use-base'):
    try:
        with contextlib.redirect_stdout(io.StringIO()), contextlib.redirect_stderr(io.StringIO()):
            nbmergeapp.main(['--decisions', '--no-color', '--merge-strategy', strategy] + fns)
    except Exception as e:  # noqa
        failures.append('nbmerge --decisions --merge-strategy %s: %s: %s' % (strategy, type(e).__name__, e))

if failures:
    print('C16 VIOLATED: rendering a list of merge decisions raised')
    for f in failures:
        print('  ' + f)
    sys.exit(1)
print('ok')
sys.exit(0)
