"""C14: notebooks that differ only in an ignored category give a non-empty diff
because cell/output ALIGNMENT still looks at the ignored fields.

(1) -I / --ignore-id: two cells with identical content whose ids are swapped
    (e.g. ids regenerated / cells duplicated).  compare_cell_by_ids is the
    highest-priority predicate for /cells and is used even when ids are ignored,
    so the cells are matched crosswise -> one cell inserted + one cell deleted.
(2) -O / --ignore-outputs: two cells with the same source whose outputs are
    swapped; compare_cell_strict compares outputs although they are ignored.
"""
import sys
import nbformat
from nbformat import v4


def nb(cells, minor):
    n = nbformat.from_dict(dict(nbformat=4, nbformat_minor=minor, metadata={}, cells=cells))
    if minor < 5:
        for c in n.cells:
            c.pop('id', None)
    nbformat.validate(n)
    return n


def code(src, id=None, outputs=()):
    c = v4.new_code_cell(src, outputs=list(outputs))
    if id:
        c['id'] = id
    return c


from nbdime.diffing.notebooks import diff_notebooks, set_notebook_diff_targets

bad = []

a = nb([code('x = 1', 'aaaa'), code('x = 1', 'bbbb')], 5)
b = nb([code('x = 1', 'bbbb'), code('x = 1', 'aaaa')], 5)
set_notebook_diff_targets(identifier=False)
d = diff_notebooks(a, b)
set_notebook_diff_targets()
if d:
    bad.append('ids ignored, notebooks differ only in cell ids, diff = %r' % (d,))

o1 = v4.new_output('stream', name='stdout', text='first output\n')
o2 = v4.new_output('stream', name='stdout', text='something else entirely\n')
a = nb([code('f()', outputs=[o1]), code('f()', outputs=[o2])], 4)
b = nb([code('f()', outputs=[o2]), code('f()', outputs=[o1])], 4)
set_notebook_diff_targets(outputs=False)
d = diff_notebooks(a, b)
set_notebook_diff_targets()
if d:
    bad.append('outputs ignored, notebooks differ only in outputs, diff = %r' % (d,))

if bad:
    print('C14 VIOLATED: expected empty diffs')
    for m in bad:
        print('  ' + m[:600])
    sys.exit(1)
print('ok')
sys.exit(0)
