"""C14: the id flags of nbshow have no effect, and cell ids are tied to "details".

 - `nbshow -I/--ignore-id nb` still prints every cell id.
 - `nbshow -i/--id nb` (positive flag: show ONLY ids) prints everything.
   nbshowapp.main() leaves 'id' out of the tuple given to
   process_exclusive_ignorables(), and pretty_print_cell() tests
   `config.details`, never `config.id`.
 - consequently `nbshow -D` (ignore details) hides ids although ids are not
   ignored, and `nbdiff -I` shows / `nbdiff -D` hides the id of inserted cells.
"""
import io, os, sys, tempfile, contextlib
import nbformat
from nbformat import v4

c = v4.new_code_cell('x = 1', execution_count=7)
c['id'] = 'my-cell-id'
n = nbformat.from_dict(dict(nbformat=4, nbformat_minor=5, metadata={}, cells=[c]))
nbformat.validate(n)
td = tempfile.mkdtemp()
fn = os.path.join(td, 'nb.ipynb'); nbformat.write(n, fn)

from nbdime import nbshowapp


def run(argv):
    buf = io.StringIO()
    with contextlib.redirect_stdout(buf):
        nbshowapp.main(argv)
    return buf.getvalue()


bad = []
o = run(['--ignore-id', fn])
if 'my-cell-id' in o:
    bad.append('nbshow --ignore-id still prints the id:\n' + o)
o = run(['--id', fn])
if 'x = 1' in o or 'execution_count' in o:
    bad.append('nbshow --id (show only ids) prints sources/details too:\n' + o)
o = run(['--ignore-details', fn])
if 'my-cell-id' not in o:
    bad.append('nbshow --ignore-details hides the (non-ignored) id:\n' + o)
if bad:
    print('C14 VIOLATED:')
    for m in bad:
        print(m)
    sys.exit(1)
print('ok')
sys.exit(0)
