"""C12: repeating the SAME ignore configuration call makes later diffs fail.

set_notebook_diff_targets(details=False) (what `nbdiff -s`, `-o`, `-m`, ... resolve to)
installs  notebook_differs[path] = diff_ignore_keys(notebook_differs[path], keys)
i.e. it wraps whatever differ is currently installed, also an earlier wrapper of
itself.  A process that (re)states its options before every request nests one more
wrapper per call; after ~1000 calls diff_notebooks() raises RecursionError on valid
notebooks (and gets slower all the way there).  A fresh process with the same
options in force answers fine.
"""
import json, sys

import nbformat
from nbformat.v4 import new_notebook, new_code_cell


def main():
    from nbdime import diff_notebooks
    from nbdime.diffing.notebooks import set_notebook_diff_targets

    a = new_notebook(cells=[new_code_cell("x = 1", execution_count=1)])
    b = new_notebook(cells=[new_code_cell("x = 2", execution_count=2)])
    a.cells[0]["id"] = b.cells[0]["id"] = "cell-1"
    for nb in (a, b):
        nbformat.validate(nb)

    set_notebook_diff_targets(details=False)
    fresh = json.dumps(diff_notebooks(a, b), sort_keys=True)   # what a fresh process answers

    for _ in range(1100):                                      # the same options, stated again
        set_notebook_diff_targets(details=False)
    try:
        later = json.dumps(diff_notebooks(a, b), sort_keys=True)
    except RecursionError as e:
        print("C12 VIOLATED: diff_notebooks raises RecursionError (%s) after the same ignore "
              "options were set 1100 times; with the options set once it returned" % e)
        print("  ", fresh)
        return 1
    if later != fresh:
        print("C12 VIOLATED: result changed\n  once:", fresh, "\n  1100x:", later)
        return 1
    print("ok")
    return 0


if __name__ == "__main__":
    sys.exit(main())
