"""C12: an `Ignore` entry of the config file of ONE entry point stays in force for
every later diff/merge of the process, also through entry points it is not
configured for.

nbdime_config.json:  {"NbDiffDriver": {"Ignore": {"/cells/*/metadata/tags": true}}}
In one process: the git diff driver shows a diff (its parser reads the config and
calls set_notebook_diff_ignores() on the global table notebook_differs), then the
git merge driver merges base/local/remote.  The merge driver has no Ignore
configuration (build_config('git-nbmergedriver') has none), and in a fresh process
it keeps the tag that local added.  After the diff driver ran, the merge silently
drops it: ConfigBackedParser.parse_known_args installs the ignore entry and
nothing ever removes it (process_diff_flags() does nothing without flags, and
even with flags only resets its own nine paths).
"""
import contextlib, io, json, os, subprocess, sys, tempfile

import nbformat
from nbformat.v4 import new_notebook, new_code_cell


def nb(tags):
    n = new_notebook(cells=[new_code_cell("x = 1", metadata={"tags": tags})])
    n.cells[0]["id"] = "cell-1"
    nbformat.validate(n)
    return n


def build(d):
    nbformat.write(nb(["a"]), os.path.join(d, "base.ipynb"))
    nbformat.write(nb(["a", "b"]), os.path.join(d, "local.ipynb"))    # local adds a tag
    nbformat.write(nb(["a"]), os.path.join(d, "remote.ipynb"))
    with open(os.path.join(d, "nbdime_config.json"), "w") as f:
        json.dump({"NbDiffDriver": {"Ignore": {"/cells/*/metadata/tags": True}}}, f)


def merge_driver(d):
    from nbdime.vcs.git import mergedriver
    # git calls: git-nbmergedriver merge %O %A %B %L [%P]; the result replaces %A
    with contextlib.redirect_stdout(io.StringIO()), contextlib.redirect_stderr(io.StringIO()):
        rc = mergedriver.main(["merge", "base.ipynb", "local.ipynb", "remote.ipynb", "7"])
    merged = nbformat.read(os.path.join(d, "local.ipynb"), as_version=4)
    return {"returncode": rc, "tags": merged.cells[0].metadata.get("tags")}


def main():
    if len(sys.argv) > 2 and sys.argv[1] == "--fresh":
        os.chdir(sys.argv[2])
        print(json.dumps(merge_driver(sys.argv[2])))
        return 0
    here = os.path.abspath(__file__)
    with tempfile.TemporaryDirectory() as d1, tempfile.TemporaryDirectory() as d2:
        build(d1); build(d2)
        os.chdir(d1)
        from nbdime.config import build_config
        assert "Ignore" not in build_config("git-nbmergedriver"), "merge driver must have no Ignore config"
        from nbdime.vcs.git import diffdriver
        with contextlib.redirect_stdout(io.StringIO()):
            # git calls: git-nbdiffdriver diff path old-file old-hex old-mode new-file new-hex new-mode
            rc = diffdriver.main(["diff", "base.ipynb", "base.ipynb", "0" * 40, "100644",
                                  "remote.ipynb", "1" * 40, "100644"])
        assert rc == 0
        same = merge_driver(d1)
        os.chdir(d2)
        out = subprocess.run([sys.executable, here, "--fresh", d2], stdout=subprocess.PIPE,
                             stderr=subprocess.DEVNULL, check=True, universal_newlines=True).stdout
        fresh = json.loads(out.strip().splitlines()[-1])
        os.chdir(os.path.dirname(here))
    if same != fresh:
        print("C12 VIOLATED: git merge driver after the git diff driver in one process differs from a fresh process")
        print("  same process :", same, "(the tag 'b' added by local is lost, exit status says clean merge)")
        print("  fresh process:", fresh)
        return 1
    print("ok")
    return 0


if __name__ == "__main__":
    sys.exit(main())
