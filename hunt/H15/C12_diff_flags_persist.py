"""C12: the ignore flags of one nbdiff invocation persist into the next one.

In one process:  nbdiff -s a b   (sources only)   then   nbdiff a b   (no flags).
The second call is compared with the same call in a freshly started interpreter.
nbdime.args.process_diff_flags() only touches the global differ table
(nbdime.diffing.notebooks.notebook_differs) when at least one flag was given, so
a call without flags inherits whatever the previous call installed.
"""
import json, os, subprocess, sys, tempfile

import nbformat
from nbformat.v4 import new_notebook, new_code_cell, new_output


def build(d):
    a = new_notebook(cells=[new_code_cell("x = 1", metadata={"k": 1},
                                          outputs=[new_output("stream", name="stdout", text="1\n")])])
    b = new_notebook(cells=[new_code_cell("x = 2", metadata={"k": 2},
                                          outputs=[new_output("stream", name="stdout", text="2\n")])])
    a.cells[0]["id"] = b.cells[0]["id"] = "cell-1"
    for nb in (a, b):
        nbformat.validate(nb)
    nbformat.write(a, os.path.join(d, "a.ipynb"))
    nbformat.write(b, os.path.join(d, "b.ipynb"))


def nbdiff(d, flags, out):
    from nbdime import nbdiffapp
    rc = nbdiffapp.main(flags + ["--out", os.path.join(d, out),
                                 os.path.join(d, "a.ipynb"), os.path.join(d, "b.ipynb")])
    assert rc == 0
    with open(os.path.join(d, out)) as f:
        return json.load(f)


def main():
    if len(sys.argv) > 2 and sys.argv[1] == "--fresh":
        print(json.dumps(nbdiff(sys.argv[2], [], "fresh.json"), sort_keys=True))
        return 0
    with tempfile.TemporaryDirectory() as d:
        build(d)
        nbdiff(d, ["-s"], "first.json")            # some earlier request: sources only
        second = nbdiff(d, [], "second.json")      # plain nbdiff a b
        out = subprocess.run([sys.executable, os.path.abspath(__file__), "--fresh", d],
                             stdout=subprocess.PIPE, check=True, universal_newlines=True).stdout
        fresh = json.loads(out.strip().splitlines()[-1])
    if json.dumps(second, sort_keys=True) != json.dumps(fresh, sort_keys=True):
        print("C12 VIOLATED: `nbdiff a b` after `nbdiff -s a b` in the same process differs from a fresh process")
        print("  same process :", json.dumps(second, sort_keys=True))
        print("  fresh process:", json.dumps(fresh, sort_keys=True))
        return 1
    print("ok")
    return 0


if __name__ == "__main__":
    sys.exit(main())
