"""C12/C13 (recomputation): merge_notebooks is not a function of its inputs for
nbformat 4.5 notebooks with conflicting cell insertions.

Both sides insert a different cell at the same place.  With the default (inline)
strategy nbdime surrounds them with three marker cells made by
nbdime.merging.strategies.cell_marker() -> nbformat.v4.new_markdown_cell(), which
draws a random uuid for the cell id.  The same call on the same objects returns a
different notebook and different decisions every time (in the same process and in
a fresh one), so the result cannot be recomputed or compared.
"""
import json, sys

import nbformat
from nbformat.v4 import new_notebook, new_code_cell


def nb(*cells):
    n = new_notebook(cells=[new_code_cell(src) for src in cells])
    n.nbformat_minor = 5
    for c in n.cells:
        c["id"] = "id-" + c["source"].split()[0]
    nbformat.validate(n)
    return n


def main():
    from nbdime import merge_notebooks
    base = nb("common = 0")
    local = nb("local_cell = 1", "common = 0")
    remote = nb("remote_cell = 2", "common = 0")
    results = []
    for _ in range(2):
        merged, decisions = merge_notebooks(base, local, remote)
        nbformat.validate(merged)
        results.append(json.dumps([merged, decisions], sort_keys=True))
    if results[0] != results[1]:
        m1 = [c["id"] for c in json.loads(results[0])[0]["cells"]]
        m2 = [c["id"] for c in json.loads(results[1])[0]["cells"]]
        print("C12 VIOLATED: two identical merge_notebooks(base, local, remote) calls give different results")
        print("  cell ids, 1st call:", m1)
        print("  cell ids, 2nd call:", m2)
        return 1
    print("ok")
    return 0


if __name__ == "__main__":
    sys.exit(main())
