#!/usr/bin/env python
"""C15 / buildDiffs() identifies decision paths by '/' + path.join('/'):
metadata['a/b'] and metadata['a']['b'] share the tree entry '/a/b', so the
second decision's diff is appended to the first one's and applied at the
wrong object.  buildDiffs(..., 'merged') + patchStringified is what the merge
tool shows *and saves* for notebook metadata (MetadataMergeModel.serialize()).
Python apply_decisions (nbmerge) keeps the two apart.  exit 1 = disagreement."""
import copy
import glob
import json
import logging
import os
import re
import shutil
import subprocess
import sys
import tempfile

import nbformat

import nbdime
from nbdime.diffing.notebooks import diff_notebooks
from nbdime.patching import patch as py_patch
from nbdime.merging.notebooks import decide_notebook_merge
from nbdime.merging.decisions import apply_decisions
from nbdime.nbmergeapp import _build_arg_parser as build_merge_parser

logging.disable(logging.CRITICAL)

SRCROOT = os.path.join(
    os.path.dirname(os.path.dirname(os.path.abspath(nbdime.__file__))),
    'packages', 'nbdime', 'src')

# ---------------------------------------------------------------------------
# Harness: run the TypeScript sources under node
# ---------------------------------------------------------------------------

FILES = [
    'common/util.ts', 'diff/diffentries.ts', 'diff/util.ts', 'diff/range.ts',
    'patch/common.ts', 'patch/generic.ts', 'patch/stringified.ts',
    'patch/index.ts', 'merge/decisions.ts',
]
STUBS = {
    '@lumino/coreutils': 'stubs/lumino.ts',
    'json-stable-stringify': 'stubs/stable.ts',
}
STUB_SRC = {
    'stubs/lumino.ts':
        'export const JSONExt = { deepCopy(v: any): any { '
        'return v === undefined ? v : JSON.parse(JSON.stringify(v)); } };\n',
    'stubs/stable.ts':
        'export default function stableStringify(v: any, o?: any): string { '
        'return JSON.stringify(v, null, o && o.space); }\n',
}
IMPORT_RE = re.compile(
    r"^import\s+(type\s+)?(\{[^}]*\}|\*\s+as\s+\w+|\w+)\s+from\s+'([^']+)';",
    re.M | re.S)
EXPORT_RE = re.compile(
    r'^export\s+(?:async\s+)?(?:function\*?|const|let|var|class)\s+([A-Za-z_$][\w$]*)',
    re.M)


def find_node():
    cands = [shutil.which(n) for n in ('node', 'nodejs')]
    for root in (os.path.expanduser('~'), '/root'):
        cands += glob.glob(os.path.join(root, '.nvm/versions/node/*/bin/node'))
    cands += glob.glob('/usr/local/n/versions/node/*/bin/node')
    cands += glob.glob('/opt/node*/bin/node') + glob.glob('/usr/local/bin/node*')
    best = None
    for c in cands:
        if not c:
            continue
        try:
            v = subprocess.run([c, '--version'], capture_output=True,
                               text=True, timeout=20).stdout.strip()
            ver = tuple(int(x) for x in re.match(r'v(\d+)\.(\d+)\.(\d+)', v).groups())
        except Exception:
            continue
        if ver >= (22, 7, 0) and (best is None or ver > best[0]):
            best = (ver, c)
    return best


def _resolve(frm, spec):
    base = os.path.normpath(os.path.join(os.path.dirname(frm), spec))
    for cand in (base + '.ts', os.path.join(base, 'index.ts')):
        if os.path.exists(os.path.join(SRCROOT, cand)):
            return cand
    return None


def _exports(rel, seen=None):
    seen = seen if seen is not None else set()
    if rel in seen:
        return set()
    seen.add(rel)
    src = open(os.path.join(SRCROOT, rel), encoding='utf8').read()
    names = set(EXPORT_RE.findall(src))
    for spec in re.findall(r"^export \* from '([^']+)';", src, re.M):
        tgt = _resolve(rel, spec)
        if tgt:
            names |= _exports(tgt, seen)
    return names


def _rewrite(rel, src):
    """Only the import/export-from lines are touched: explicit .ts file names,
    type-only names dropped (node strips types, it does not elide imports),
    the two external packages replaced by three-line stubs."""
    def relpath(target):
        r = os.path.relpath(target, os.path.dirname(rel) or '.').replace(os.sep, '/')
        return r if r.startswith('.') else './' + r

    def filtered(what, avail):
        names = [n.strip() for n in what.strip('{}').split(',') if n.strip()]
        keep = [n for n in names if n.split(' as ')[0].strip() in avail]
        return '{ ' + ', '.join(keep) + ' }' if keep else None

    def sub(m):
        is_type, what, spec = m.group(1), m.group(2), m.group(3)
        if is_type:
            return ''
        if spec in STUBS:
            target = STUBS[spec]
            avail = set(EXPORT_RE.findall(STUB_SRC[target]))
        elif spec.startswith('.'):
            target = _resolve(rel, spec)
            if target is None:
                return ''
            avail = _exports(target)
        else:
            return ''
        if what.startswith('{'):
            what = filtered(what, avail)
            if what is None:
                return ''
        return "import %s from '%s';" % (what, relpath(target))

    src = IMPORT_RE.sub(sub, src)
    return re.sub(r"^export \* from '([^']+)';",
                  lambda m: "export * from '%s';" % relpath(_resolve(rel, m.group(1))),
                  src, flags=re.M)


DRIVER = r'''
import { patch, patchStringified } from './patch/index.ts';
import { MergeDecision, applyDecisions, buildDiffs, resolveCommonPaths, filterDecisions } from './merge/decisions.ts';
import * as fs from 'node:fs';
const jobs = JSON.parse(fs.readFileSync(process.argv[2], 'utf8'));
const out: any[] = [];
console.log = () => {}; console.warn = () => {}; console.assert = () => {};
function resolve(b: any, path: any[]) { for (const k of path) { b = b[k]; } return b; }
for (const job of jobs) {
  try {
    let res: any;
    const decs = (job.decisions || []).map((d: any) => new MergeDecision(d));
    if (job.kind === 'patch') {
      // the web diff view: patch(base, diff) is the remote document
      res = patch(job.base, job.diff);
    } else if (job.kind === 'patchstr') {
      // the web diff view of a JSON value (metadata): patchStringified(...).remote
      res = JSON.parse(patchStringified(job.base, job.diff).remote);
    } else if (job.kind === 'decisions') {
      res = applyDecisions(job.base, decs);
    } else if (job.kind === 'resolvecommon') {
      // what NotebookMergeModel.preprocessDecisions does before anything is applied
      resolveCommonPaths(decs);
      res = applyDecisions(job.base, decs);
    } else if (job.kind === 'metastr') {
      // MetadataMergeModel.serialize():
      //   JSON.parse(patchStringified(base.metadata, buildDiffs(base.metadata, decisions, 'merged')).remote)
      resolveCommonPaths(decs);
      const sub = filterDecisions(decs, ['metadata'], 0);
      const diff = buildDiffs(job.base.metadata, sub, 'merged');
      res = JSON.parse(patchStringified(job.base.metadata, diff).remote);
    } else if (job.kind === 'submerged') {
      // merged view of a sub-model (cell.ts: outputs, source):
      //   patch(subbase, buildDiffs(subbase, filtered decisions, 'merged'))
      const sub = filterDecisions(decs, job.prefix, 0);
      const b = resolve(job.base, job.prefix);
      const diff = buildDiffs(b, sub, 'merged');
      res = diff === null ? b : patch(b, diff);
    }
    out.push({ ok: true, result: res });
  } catch (e: any) {
    out.push({ ok: false, error: String(e && e.name) + ': ' + String(e && e.message) });
  }
}
fs.writeFileSync(process.argv[3], JSON.stringify(out));
'''


def run_ts(jobs):
    node = find_node()
    if node is None:
        return None
    tmp = tempfile.mkdtemp(prefix='nbdime-ts-')
    try:
        for rel in FILES:
            src = open(os.path.join(SRCROOT, rel), encoding='utf8').read()
            dst = os.path.join(tmp, rel)
            os.makedirs(os.path.dirname(dst), exist_ok=True)
            with open(dst, 'w', encoding='utf8') as f:
                f.write(_rewrite(rel, src))
        for rel, src in STUB_SRC.items():
            dst = os.path.join(tmp, rel)
            os.makedirs(os.path.dirname(dst), exist_ok=True)
            with open(dst, 'w', encoding='utf8') as f:
                f.write(src)
        with open(os.path.join(tmp, 'driver.ts'), 'w') as f:
            f.write(DRIVER)
        with open(os.path.join(tmp, 'jobs.json'), 'w') as f:
            json.dump(jobs, f)
        p = subprocess.run(
            [node[1], '--experimental-transform-types', '--no-warnings',
             os.path.join(tmp, 'driver.ts'), os.path.join(tmp, 'jobs.json'),
             os.path.join(tmp, 'out.json')],
            capture_output=True, text=True, timeout=25, cwd=tmp)
        if p.returncode != 0:
            raise RuntimeError('node could not run the TypeScript sources:\n'
                               + p.stdout + p.stderr)
        with open(os.path.join(tmp, 'out.json')) as f:
            return json.load(f)
    finally:
        shutil.rmtree(tmp, ignore_errors=True)




# ---------------------------------------------------------------------------
# Helpers
# ---------------------------------------------------------------------------

def norm(x):
    """Canonical form: bools/None/ints stay distinct; a float that JSON.parse
    cannot tell from an int (1.0 -> 1) is folded, so that this JavaScript
    limitation is not reported as a difference."""
    if isinstance(x, bool) or x is None:
        return x
    if isinstance(x, float) and x == int(x) and abs(x) < 2 ** 53:
        return int(x)
    if isinstance(x, dict):
        return {k: norm(v) for k, v in x.items()}
    if isinstance(x, (list, tuple)):
        return [norm(v) for v in x]
    return x


def canon(x):
    return json.dumps(norm(x), sort_keys=True, ensure_ascii=True)


def web_merge_args(strategy='mergetool'):
    # As nbdime.webapp.nbdimeserver.ApiMergeHandler.post
    args = build_merge_parser().parse_args(['', '', ''])
    args.merge_strategy = strategy
    return args


def validate(*nbs):
    for nb in nbs:
        nbformat.validate(nbformat.from_dict(copy.deepcopy(nb)))


def notebook(cells=(), metadata=None, minor=4):
    return {'nbformat': 4, 'nbformat_minor': minor, 'metadata': metadata or {},
            'cells': list(cells)}


def code(source, outputs=(), execution_count=None, metadata=None):
    return {'cell_type': 'code', 'metadata': metadata or {}, 'source': source,
            'execution_count': execution_count, 'outputs': list(outputs)}


def markdown(source, metadata=None):
    return {'cell_type': 'markdown', 'metadata': metadata or {}, 'source': source}


def stream(text, name='stdout'):
    return {'output_type': 'stream', 'name': name, 'text': text}


def server_merge(base, local, remote, strategy='mergetool'):
    """What ApiMergeHandler sends: {'base', 'merge_decisions'} through JSON,
    and what nbmerge would write for the same decisions."""
    validate(base, local, remote)
    b, l, r = (nbformat.from_dict(copy.deepcopy(x)) for x in (base, local, remote))
    decisions = decide_notebook_merge(b, l, r, args=web_merge_args(strategy))
    wire = json.loads(json.dumps({'base': b, 'merge_decisions': decisions}))
    py = json.loads(json.dumps(apply_decisions(b, decisions)))
    return wire, py


def server_diff(base, remote):
    """What ApiDiffHandler sends, and the remote the diff stands for."""
    validate(base, remote)
    b, r = (nbformat.from_dict(copy.deepcopy(x)) for x in (base, remote))
    diff = diff_notebooks(b, r)
    wire = json.loads(json.dumps({'base': b, 'diff': diff}))
    py = json.loads(json.dumps(py_patch(b, diff)))
    assert canon(py) == canon(remote), 'python patch(base, diff) != remote'
    return wire, py


def resolve(obj, path):
    for k in path:
        obj = obj[k]
    return obj


def report(checks):
    """checks: list of (name, expected python value, ts result dict, paths to show)"""
    failed = 0
    for name, py, res, show in checks:
        if res['ok'] and canon(res['result']) == canon(py):
            print('agree    : %s' % name)
            continue
        failed += 1
        print('DISAGREE : %s' % name)
        for p in show:
            print('    at /%s' % '/'.join(str(k) for k in p))
            try:
                print('      python     : %s' % canon(resolve(py, p)))
            except (KeyError, IndexError, TypeError):
                print('      python     : <missing>')
            if res['ok']:
                try:
                    print('      typescript : %s' % canon(resolve(res['result'], p)))
                except (KeyError, IndexError, TypeError):
                    print('      typescript : <missing>')
        if not res['ok']:
            print('      typescript raises: %s' % res['error'])
    return 1 if failed else 0


def run(jobs):
    res = run_ts(jobs)
    if res is None:
        print('SKIP: no node >= 22.7 found')
        sys.exit(0)
    return res

def main():
    md = {'a': {'b': {'x': 1, 'y': 1}}, 'a/b': {'x': 1, 'y': 1}}
    base = notebook([], metadata=md)
    local = copy.deepcopy(base); local['metadata']['a/b']['x'] = 2
    remote = copy.deepcopy(base); remote['metadata']['a']['b']['y'] = 3
    w, p = server_merge(base, local, remote)
    print('decisions: %s' % json.dumps(w['merge_decisions']))
    res = run([{'kind': 'metastr', 'base': w['base'], 'decisions': w['merge_decisions']},
               {'kind': 'decisions', 'base': w['base'], 'decisions': w['merge_decisions']}])
    return report([('merge tool saved metadata (buildDiffs merged + patchStringified)', p['metadata'], res[0], [[]]),
                   ('(control) applyDecisions on the whole notebook', p, res[1], [['metadata']])])


if __name__ == '__main__':
    sys.exit(main())
