"""C04: one side converts a code cell to markdown (same cell id), the other side re-runs it.

base   : 4.5 notebook, one code cell (id 'c1') with execution_count 1 and a stream output
local  : the same cell converted to a markdown cell (JupyterLab keeps the id): cell_type
         changed, 'outputs' and 'execution_count' removed
remote : cell re-run: execution_count 2, output text changed
The cells are aligned by id, cell_type is taken from local, and the remove-vs-patch conflict
on 'outputs' (and, with --no-ignore-transients, on 'execution_count') keeps / re-adds the
code-only fields: the result is a markdown cell with 'outputs' -> schema violation.

run as: PYTHONPATH=<nbdime tree> /venv/bin/python C04_celltype_change_vs_rerun.py
exit 1 (printing what went wrong) when the property is violated, 0 otherwise.
"""
import copy, json, logging, os, sys, warnings
import jsonschema
import nbformat
from nbformat.v4 import (new_notebook, new_code_cell, new_markdown_cell,
                         new_raw_cell, new_output)
from nbdime.merging.notebooks import merge_notebooks
import nbdime.prettyprint as pp

logging.disable(logging.CRITICAL)
warnings.simplefilter("ignore")
pp.which = lambda name: None        # built-in text merge: no dependence on git / diff3


class Args(object):
    def __init__(self, m="inline", i=None, o=None, t=True):
        self.merge_strategy, self.input_strategy, self.output_strategy = m, i, o
        self.ignore_transients, self.log_level = t, "INFO"


M = ["inline", "use-base", "use-local", "use-remote"]
COMBOS = [(m, i, o, t) for m in M for i in [None] + M
          for o in [None] + M + ["remove", "clear-all"] for t in (True, False)]
COMBOS += [("mergetool", None, None, True), ("mergetool", None, None, False)]


def strict_errors(nb):
    """Independent oracle: jsonschema against the schema file nbformat ships
    for the declared minor version, plus uniqueness of the cell ids (4.5+).
    (nbformat.validate itself silently *repairs* missing / duplicate ids.)"""
    d = json.loads(json.dumps(nb))
    minor = d["nbformat_minor"]
    fn = os.path.join(os.path.dirname(nbformat.v4.__file__),
                      "nbformat.v4.%d.schema.json" % min(max(minor, 0), 5))
    with open(fn) as f:
        schema = json.load(f)
    errs = []
    for e in jsonschema.Draft4Validator(schema).iter_errors(d):
        sub = sorted(e.context, key=lambda c: len(c.schema_path)) if e.context else [e]
        kind = (e.instance.get("cell_type") or e.instance.get("output_type")) if isinstance(e.instance, dict) else None
        msgs = [c.message for c in sub
                if not (c.validator == "enum")
                and not (kind and any(o.validator == "enum" and o.schema_path[0] == c.schema_path[0] for o in sub))]
        errs.append("/%s: %s" % ("/".join(map(str, e.absolute_path)), "; ".join(msgs[:2]) or e.message[:200]))
    if minor >= 5:
        ids = [c.get("id") for c in d["cells"]]
        dup = sorted(set(i for i in ids if i is not None and ids.count(i) > 1))
        if dup:
            errs.append("duplicate cell ids: %r" % dup)
    return errs


def nb_of(cells, minor, metadata=None):
    nb = new_notebook(cells=copy.deepcopy(cells), metadata=metadata or {})
    nb.nbformat_minor = minor
    if minor < 5:
        for c in nb.cells:
            c.pop("id", None)
    return nb


def check_inputs(*nbs):
    for nb in nbs:
        errs = strict_errors(nb)
        assert not errs, "generated input is not valid: %r" % errs
        with warnings.catch_warnings():
            warnings.simplefilter("error")      # also no id repair needed
            nbformat.validate(copy.deepcopy(nb))


def run_all(base, local, remote, show=("inline", None, None, True)):
    """merge under every strategy combination; return 1 if any result is invalid"""
    bad = []
    for combo in COMBOS:
        merged, decisions = merge_notebooks(
            copy.deepcopy(base), copy.deepcopy(local), copy.deepcopy(remote), Args(*combo))
        errs = strict_errors(merged)
        if errs:
            bad.append((combo, errs, merged, decisions))
    if not bad:
        print("OK: merged notebook is valid under all %d strategy combinations" % len(COMBOS))
        return 0
    combo, errs, merged, decisions = ([b for b in bad if b[0] == show] or bad)[0]
    print("C04 VIOLATED: merged notebook does not validate against nbformat 4.%d schema" % merged.nbformat_minor)
    print("  invalid under %d of %d strategy combinations; first shown: "
          "merge=%s input=%s output=%s ignore_transients=%s" % ((len(bad), len(COMBOS)) + combo))
    for e in errs:
        print("  -", e)
    print("  unresolved conflicts reported: %d" % sum(1 for d in decisions if d.conflict))
    print("  merged cells:", json.dumps(merged.cells, sort_keys=True)[:900])
    try:
        with warnings.catch_warnings(record=True) as w:
            warnings.simplefilter("always")
            nbformat.validate(copy.deepcopy(merged))
        print("  nbformat.validate: passes only after repairing: %s" % "; ".join(sorted(set(str(x.message)[:90] for x in w)))
              if w else "  nbformat.validate: passes")
    except nbformat.ValidationError as e:
        print("  nbformat.validate raises:", str(e).splitlines()[0])
    return 1


def main():
    out = new_output("stream", name="stdout", text="1\n")
    base = nb_of([new_code_cell("x = 1\nprint(x)", id="c1", execution_count=1, outputs=[out])], 5)
    local = nb_of([new_markdown_cell("x = 1\nprint(x)", id="c1")], 5)
    remote = copy.deepcopy(base)
    remote.cells[0].execution_count = 2
    remote.cells[0].outputs[0].text = "2\n"
    check_inputs(base, local, remote)
    return run_all(base, local, remote)


if __name__ == "__main__":
    sys.exit(main())
