#!/usr/bin/env python
"""C15: a markdown cell (with id) is converted to a code cell on both sides and executed, with different
execution_count values.  The strategy on /cells/*/execution_count is `clear`; the key is absent from base,
so Python's resolve_action emits `add execution_count null`.  The TypeScript resolveAction always built
opReplace(key, makeClearedValue(base[key])) and validateObjectOp threw "Missing key".
exit 1 = TypeScript rejects / differs from apply_decisions."""
import glob
import json
import os
import re
import shutil
import subprocess
import tempfile

import nbdime

SRCROOT = os.path.join(
    os.path.dirname(os.path.dirname(os.path.abspath(nbdime.__file__))),
    'packages', 'nbdime', 'src')

FILES = [
    'common/util.ts', 'diff/diffentries.ts', 'diff/util.ts', 'diff/range.ts',
    'patch/common.ts', 'patch/generic.ts', 'patch/stringified.ts',
    'patch/index.ts', 'merge/decisions.ts',
]
STUBS = {
    '@lumino/coreutils': 'stubs/lumino.ts',
    'json-stable-stringify': 'stubs/stable.ts',
}
STUB_SRC = {
    # Faithful to @lumino/coreutils 2.x JSONExt.deepCopy
    'stubs/lumino.ts': r'''
function isPrimitive(v: any): boolean {
  return v === null || typeof v === 'boolean' || typeof v === 'number' || typeof v === 'string';
}
function deepCopy(value: any): any {
  if (isPrimitive(value)) { return value; }
  if (Array.isArray(value)) {
    const result = new Array(value.length);
    for (let i = 0, n = value.length; i < n; ++i) { result[i] = deepCopy(value[i]); }
    return result;
  }
  const result: any = {};
  for (const key of Object.keys(value)) {
    const subvalue = value[key];
    if (subvalue === undefined) { continue; }
    Object.defineProperty(result, key, { value: deepCopy(subvalue), writable: true, enumerable: true, configurable: true });
  }
  return result;
}
export const JSONExt = { deepCopy };
''',
    # Faithful to json-stable-stringify 1.0.2 (no cmp / replacer)
    'stubs/stable.ts': r'''
export default function stableStringify(obj: any, opts?: any): string {
  let space = (opts && opts.space) || '';
  if (typeof space === 'number') { space = Array(space + 1).join(' '); }
  return (function stringify(node: any, level: number): any {
    const indent = space ? ('\n' + new Array(level + 1).join(space)) : '';
    const colonSeparator = space ? ': ' : ':';
    if (node === undefined) { return; }
    if (typeof node !== 'object' || node === null) { return JSON.stringify(node); }
    if (Array.isArray(node)) {
      const out: string[] = [];
      for (let i = 0; i < node.length; i++) {
        const item = stringify(node[i], level + 1) || JSON.stringify(null);
        out.push(indent + space + item);
      }
      return '[' + out.join(',') + indent + ']';
    } else {
      const keys = Object.keys(node).sort();
      const out: string[] = [];
      for (let i = 0; i < keys.length; i++) {
        const key = keys[i];
        const value = stringify(node[key], level + 1);
        if (!value) { continue; }
        out.push(indent + space + JSON.stringify(key) + colonSeparator + value);
      }
      return '{' + out.join(',') + indent + '}';
    }
  })(obj, 0);
}
''',
}
IMPORT_RE = re.compile(
    r"^import\s+(type\s+)?(\{[^}]*\}|\*\s+as\s+\w+|\w+)\s+from\s+'([^']+)';",
    re.M | re.S)
EXPORT_RE = re.compile(
    r'^export\s+(?:default\s+)?(?:async\s+)?(?:function\*?|const|let|var|class)\s+([A-Za-z_$][\w$]*)',
    re.M)


def find_node():
    cands = [shutil.which(n) for n in ('node', 'nodejs')]
    for root in (os.path.expanduser('~'), '/root'):
        cands += glob.glob(os.path.join(root, '.nvm/versions/node/*/bin/node'))
    cands += glob.glob('/usr/local/n/versions/node/*/bin/node')
    cands += glob.glob('/opt/node*/bin/node') + glob.glob('/usr/local/bin/node*')
    best = None
    for c in cands:
        if not c:
            continue
        try:
            v = subprocess.run([c, '--version'], capture_output=True,
                               text=True, timeout=20).stdout.strip()
            ver = tuple(int(x) for x in re.match(r'v(\d+)\.(\d+)\.(\d+)', v).groups())
        except Exception:
            continue
        if ver >= (22, 7, 0) and (best is None or ver > best[0]):
            best = (ver, c)
    return best


def _resolve(frm, spec):
    base = os.path.normpath(os.path.join(os.path.dirname(frm), spec))
    for cand in (base + '.ts', os.path.join(base, 'index.ts')):
        if os.path.exists(os.path.join(SRCROOT, cand)):
            return cand
    return None


def _exports(rel, seen=None):
    seen = seen if seen is not None else set()
    if rel in seen:
        return set()
    seen.add(rel)
    src = open(os.path.join(SRCROOT, rel), encoding='utf8').read()
    names = set(EXPORT_RE.findall(src))
    for spec in re.findall(r"^export \* from '([^']+)';", src, re.M):
        tgt = _resolve(rel, spec)
        if tgt:
            names |= _exports(tgt, seen)
    return names


def _rewrite(rel, src):
    def relpath(target):
        r = os.path.relpath(target, os.path.dirname(rel) or '.').replace(os.sep, '/')
        return r if r.startswith('.') else './' + r

    def filtered(what, avail):
        names = [n.strip() for n in what.strip('{}').split(',') if n.strip()]
        keep = [n for n in names if n.split(' as ')[0].strip() in avail]
        return '{ ' + ', '.join(keep) + ' }' if keep else None

    def sub(m):
        is_type, what, spec = m.group(1), m.group(2), m.group(3)
        if is_type:
            return ''
        if spec in STUBS:
            target = STUBS[spec]
            avail = set(EXPORT_RE.findall(STUB_SRC[target]))
        elif spec.startswith('.'):
            target = _resolve(rel, spec)
            if target is None:
                return ''
            avail = _exports(target)
        else:
            return ''
        if what.startswith('{'):
            what = filtered(what, avail)
            if what is None:
                return ''
        return "import %s from '%s';" % (what, relpath(target))

    src = IMPORT_RE.sub(sub, src)
    return re.sub(r"^export \* from '([^']+)';",
                  lambda m: "export * from '%s';" % relpath(_resolve(rel, m.group(1))),
                  src, flags=re.M)


DRIVER = r'''
import { patch, patchStringified } from './patch/index.ts';
import { MergeDecision, applyDecisions } from './merge/decisions.ts';
import * as fs from 'node:fs';
const jobs = JSON.parse(fs.readFileSync(process.argv[2], 'utf8'));
const out: any[] = [];
console.log = () => {}; console.warn = () => {}; console.assert = () => {};
for (const jobText of jobs) {
  try {
    const job = JSON.parse(jobText);
    let res: any;
    if (job.kind === 'patch') {
      res = { result: patch(job.base, job.diff) };
    } else if (job.kind === 'stringified') {
      const r = patchStringified(job.base, job.diff);
      res = { remote: r.remote,
              additions: r.additions.map((x: any) => [x.from, x.to]),
              deletions: r.deletions.map((x: any) => [x.from, x.to]) };
    } else {
      const decs = job.decisions.map((d: any) => new MergeDecision(d));
      res = { result: applyDecisions(job.base, decs) };
    }
    res.ok = true;
    out.push(res);
  } catch (e: any) {
    out.push({ ok: false, error: String(e && e.name) + ': ' + String(e && e.message) });
  }
}
fs.writeFileSync(process.argv[3], JSON.stringify(out));
'''

_NODE = None


def run_ts(jobs, timeout=25):
    global _NODE
    if _NODE is None:
        _NODE = find_node()
    node = _NODE
    if node is None:
        return None
    tmp = tempfile.mkdtemp(prefix='nbdime-ts-')
    try:
        for rel in FILES:
            src = open(os.path.join(SRCROOT, rel), encoding='utf8').read()
            dst = os.path.join(tmp, rel)
            os.makedirs(os.path.dirname(dst), exist_ok=True)
            with open(dst, 'w', encoding='utf8') as f:
                f.write(_rewrite(rel, src))
        for rel, src in STUB_SRC.items():
            dst = os.path.join(tmp, rel)
            os.makedirs(os.path.dirname(dst), exist_ok=True)
            with open(dst, 'w', encoding='utf8') as f:
                f.write(src)
        with open(os.path.join(tmp, 'driver.ts'), 'w') as f:
            f.write(DRIVER)
        with open(os.path.join(tmp, 'jobs.json'), 'w') as f:
            json.dump([j if isinstance(j, str) else json.dumps(j) for j in jobs], f)
        p = subprocess.run(
            [node[1], '--experimental-transform-types', '--no-warnings',
             os.path.join(tmp, 'driver.ts'), os.path.join(tmp, 'jobs.json'),
             os.path.join(tmp, 'out.json')],
            capture_output=True, text=True, timeout=timeout, cwd=tmp)
        if p.returncode != 0:
            raise RuntimeError('node could not run the TypeScript sources:\n'
                               + p.stdout + p.stderr)
        with open(os.path.join(tmp, 'out.json')) as f:
            return json.load(f)
    finally:
        shutil.rmtree(tmp, ignore_errors=True)


def canon(x):
    return json.dumps(x, sort_keys=True, ensure_ascii=True)



# ---------------------------------------------------------------------------
# helpers shared by the cases
# ---------------------------------------------------------------------------
import copy
import sys
import nbformat
from nbdime import diff_notebooks, patch as py_patch
from nbdime.diff_utils import to_diffentry_dicts


def notebook(cells, metadata=None, minor=5):
    nb = {'nbformat': 4, 'nbformat_minor': minor, 'metadata': metadata or {}, 'cells': []}
    for i, c in enumerate(cells):
        c = copy.deepcopy(c)
        if minor >= 5:
            c.setdefault('id', 'cell-%d' % i)
        nb['cells'].append(c)
    nb = nbformat.from_dict(nb)
    nbformat.validate(nb)          # inputs are valid notebooks
    return nb


def code(source, outputs=(), metadata=None):
    return {'cell_type': 'code', 'metadata': metadata or {}, 'source': source,
            'execution_count': None, 'outputs': list(outputs)}


def server_diff(base, remote):
    """What ApiDiffHandler sends: base + diff, through JSON."""
    d = diff_notebooks(base, remote)
    wire = json.dumps({'base': base, 'diff': d})
    return wire


def python_patch(wire_text):
    w = json.loads(wire_text)
    return json.loads(json.dumps(py_patch(w['base'], to_diffentry_dicts(w['diff']))))


def need_node():
    if find_node() is None:
        print('SKIP: no node >= 22.7 found')
        sys.exit(0)


def subdiff(diff, *keys):
    for k in keys:
        diff = [e for e in diff if e['key'] == k][0]['diff']
    return diff

def main():
    need_node()
    from nbdime.merging.notebooks import decide_notebook_merge
    from nbdime.merging.decisions import apply_decisions
    from nbdime.nbmergeapp import _build_arg_parser
    args = _build_arg_parser().parse_args(['', '', ''])
    args.merge_strategy = 'mergetool'        # as ApiMergeHandler.post
    md = {'cell_type': 'markdown', 'metadata': {}, 'source': 'x = 1', 'id': 'c1'}
    def code(n):
        return {'cell_type': 'code', 'metadata': {}, 'source': 'x = 1', 'id': 'c1', 'outputs': [], 'execution_count': n}
    base = notebook([md], minor=5)
    local = notebook([code(3)], minor=5)
    remote = notebook([code(7)], minor=5)
    decisions = decide_notebook_merge(base, local, remote, args=args)
    wire = json.loads(json.dumps({'base': base, 'merge_decisions': decisions}))
    exp = json.loads(json.dumps(apply_decisions(base, decisions)))
    r = run_ts([{'kind': 'decisions', 'base': wire['base'], 'decisions': wire['merge_decisions']}])[0]
    print('actions:', [d['action'] for d in wire['merge_decisions']])
    print('python apply_decisions: cell = %s' % json.dumps(exp['cells'][0], sort_keys=True))
    print('ts applyDecisions     : %s' % (canon(r['result']['cells'][0]) if r['ok'] else r['error']))
    ok = r['ok'] and canon(r['result']) == canon(exp)
    print('agree' if ok else 'VIOLATION')
    return 0 if ok else 1


if __name__ == '__main__':
    sys.exit(main())
