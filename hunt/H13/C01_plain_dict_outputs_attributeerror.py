"""C01: diff_notebooks() on schema-valid notebooks given as plain dicts
(json.load) raises AttributeError as soon as two display_data/execute_result
outputs are aligned; stream/error outputs and everything else work with plain
dicts.  diff_single_outputs() uses attribute access (a.output_type, a.data).

Run: PYTHONPATH=<tree> /venv/bin/python C01_plain_dict_outputs_attributeerror.py
"""
import json, sys, warnings, traceback
warnings.simplefilter("ignore")
import nbformat
from nbdime import diff_notebooks, patch_notebook

def nb(text):
    return json.loads(json.dumps({
        "nbformat": 4, "nbformat_minor": 4, "metadata": {},
        "cells": [{"cell_type": "code", "source": "x", "metadata": {}, "execution_count": 1,
                   "outputs": [{"output_type": "execute_result", "execution_count": 1, "metadata": {},
                                "data": {"text/plain": text}}]}]}))

A, B = nb("1"), nb("2")
for n in (A, B):
    nbformat.validate(nbformat.from_dict(n))
assert type(A) is dict
try:
    d = diff_notebooks(A, B)
    p = patch_notebook(A, d)
    ok = json.dumps(p, sort_keys=True) == json.dumps(B, sort_keys=True)
except Exception as e:
    tb = traceback.extract_tb(sys.exc_info()[2])[-1]
    print("VIOLATION (C01): diff_notebooks on plain-dict notebooks raised %s: %s (%s:%d in %s)"
          % (type(e).__name__, e, tb.filename.split("/")[-1], tb.lineno, tb.name))
    sys.exit(1)
if not ok:
    print("VIOLATION (C01): round trip differs")
    sys.exit(1)
print("ok")
