"""C01 (sequence of calls): a diff computed with NOTHING ignored does not
round-trip if an earlier nbdiff run in the same process used an ignore flag.

nbdiffapp.main() -> process_diff_flags() writes the ignore configuration into
the module-global nbdime.diffing.notebooks.notebook_differs, and only when at
least one flag is given.  A later run without flags therefore silently keeps
the previous run's ignores: the JSON diff it writes is incomplete and nbpatch
does not rebuild B.

Run: PYTHONPATH=<tree> /venv/bin/python C01_ignore_flags_leak_between_runs.py
"""
import json, sys, os, tempfile, io, contextlib, warnings, logging
warnings.simplefilter("ignore"); logging.disable(logging.CRITICAL)
import nbformat
import nbdime.nbdiffapp, nbdime.nbpatchapp

def canon(x):
    return json.dumps(x, sort_keys=True)

def nb(src, out):
    n = nbformat.from_dict({
        "nbformat": 4, "nbformat_minor": 4, "metadata": {},
        "cells": [{"cell_type": "code", "source": src, "metadata": {}, "execution_count": 1,
                   "outputs": [{"output_type": "stream", "name": "stdout", "text": out}]}]})
    nbformat.validate(n)
    return n

tmp = tempfile.mkdtemp()
fa, fb, fd, fo = [os.path.join(tmp, n) for n in ("a.ipynb", "b.ipynb", "d.json", "o.ipynb")]
nbformat.write(nb("x = 1", "1\n"), fa)
nbformat.write(nb("x = 2", "2\n"), fb)

def roundtrip():
    for f in (fd, fo):
        if os.path.exists(f):
            os.remove(f)
    with contextlib.redirect_stdout(io.StringIO()):
        assert nbdime.nbdiffapp.main([fa, fb, "--out", fd]) == 0      # no ignore flag at all
        assert nbdime.nbpatchapp.main([fa, fd, "-o", fo]) == 0
    return canon(nbformat.read(fo, as_version=4)) == canon(nbformat.read(fb, as_version=4))

assert roundtrip(), "fresh process: nbdiff --out / nbpatch must round trip"
with contextlib.redirect_stdout(io.StringIO()):
    nbdime.nbdiffapp.main([fa, fb, "--sources"])      # an unrelated earlier run: show only source changes
if not roundtrip():
    print("VIOLATION (C01): after an earlier `nbdiff -s` in the same process, `nbdiff a b --out d` "
          "(no flags) still ignores outputs; nbpatch(a, d) != b")
    print("   diff written:", open(fd).read().replace("\n", "").replace("  ", "")[:400])
    sys.exit(1)
print("ok")
