"""C01 (file interface): B contains a lone surrogate (valid JSON: "\\ud83d",
e.g. an emoji cut in half by a truncating kernel/front end).  nbdiff --out
handles it (the diff is ASCII JSON), but `nbpatch -o` dies with
UnicodeEncodeError inside nbformat.write and leaves an EMPTY output file
behind, so B is not rebuilt.

Run: PYTHONPATH=<tree> /venv/bin/python C01_file_interface_lone_surrogate.py
"""
import json, sys, os, tempfile, io, contextlib, warnings, logging, traceback
warnings.simplefilter("ignore"); logging.disable(logging.CRITICAL)
import nbformat
import nbdime.nbdiffapp, nbdime.nbpatchapp

def nbtext(out):
    return json.dumps({"nbformat": 4, "nbformat_minor": 4, "metadata": {},
                       "cells": [{"cell_type": "code", "source": "print(s[:n])", "metadata": {}, "execution_count": 1,
                                  "outputs": [{"output_type": "stream", "name": "stdout", "text": out}]}]})
tmp = tempfile.mkdtemp()
fa, fb, fd, fo = [os.path.join(tmp, n) for n in ("a.ipynb", "b.ipynb", "d.json", "o.ipynb")]
with open(fa, "w") as f: f.write(nbtext("ok\n"))
with open(fb, "w") as f: f.write(nbtext("ok \ud83d\n"))      # json.dumps escapes it: pure ASCII file
for f in (fa, fb):
    nbformat.validate(nbformat.read(f, as_version=4))
with contextlib.redirect_stdout(io.StringIO()):
    assert nbdime.nbdiffapp.main([fa, fb, "--out", fd]) == 0
try:
    with contextlib.redirect_stdout(io.StringIO()):
        rc = nbdime.nbpatchapp.main([fa, fd, "-o", fo])
    ok = rc == 0 and json.dumps(nbformat.read(fo, as_version=4), sort_keys=True) == json.dumps(nbformat.read(fb, as_version=4), sort_keys=True)
    msg = "rc=%r, result differs" % rc
except Exception as e:
    tb = traceback.extract_tb(sys.exc_info()[2])[-1]
    ok = False
    msg = "%s: %s (%s:%d)" % (type(e).__name__, str(e)[:90], "/".join(tb.filename.split("/")[-2:]), tb.lineno)
if not ok:
    size = os.path.getsize(fo) if os.path.exists(fo) else None
    print("VIOLATION (C01, file interface): nbpatch -o failed: %s; output file size: %r bytes" % (msg, size))
    sys.exit(1)
print("ok")
