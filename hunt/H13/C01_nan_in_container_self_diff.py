"""C01/C02: identical documents produce a NON-empty diff when a NaN sits inside
a container that is itself a list element, or inside an application/json
output payload.  compare_strict() was taught that NaN equals NaN, but only for
scalars: containers holding NaN are still compared with ==, and so are the
output alignment predicates (_compare_mimedata falls back to x == y).

Only reachable with distinct NaN objects (float("nan"), math.nan, numpy.nan
...): json.loads hands out one shared NaN object, for which == on containers
succeeds through the identity shortcut.

Run: PYTHONPATH=<tree> /venv/bin/python C01_nan_in_container_self_diff.py
"""
import json, sys, warnings
warnings.simplefilter("ignore")
import nbformat
from nbdime import diff, diff_notebooks

def canon(x):
    return json.dumps(x, sort_keys=True)

def nb():
    n = nbformat.from_dict({
        "nbformat": 4, "nbformat_minor": 4, "metadata": {},
        "cells": [{"cell_type": "code", "source": "df.describe()", "metadata": {}, "execution_count": 1,
                   "outputs": [{"output_type": "display_data", "metadata": {},
                                "data": {"application/json": {"mean": [1.5, float("nan")]}}}]}]})
    nbformat.validate(n)
    return n

bad = []
A, B = nb(), nb()
assert canon(A) == canon(B)
d = diff_notebooks(A, B)
if d:
    bad.append("diff_notebooks of two identical notebooks (NaN in an application/json output) is not empty: "
               "the output is removed and re-added: %s" % json.dumps(d)[:160])

# generic: reference point and failing case
assert diff([float("nan")], [float("nan")]) == [], "scalar NaN in a list is handled"
assert diff({"a": float("nan")}, {"a": float("nan")}) == []
for a, b in [([[float("nan")]], [[float("nan")]]),
             ([{"v": float("nan")}], [{"v": float("nan")}])]:
    g = diff(a, b)
    if g:
        bad.append("diff(%s, %s) = %s, expected []" % (canon(a), canon(b), json.dumps(g)))

if bad:
    print("VIOLATION (C01: the diff is empty exactly when A and B are identical)")
    for m in bad:
        print(" -", m)
    sys.exit(1)
print("ok")
