"""C02: documents nested ~500+ levels deep (json.loads/json.dumps handle them
with the default recursion limit) make diff() raise RecursionError: each level
of nesting costs several Python frames (diff -> diff_dicts -> defaultdict2
lookup ...).

Run: PYTHONPATH=<tree> /venv/bin/python C02_deep_nesting_recursionerror.py
"""
import json, sys
from nbdime import diff, patch

DEPTH = 600
a = json.loads('{"a":' * DEPTH + '1' + '}' * DEPTH)
b = json.loads('{"a":' * DEPTH + '2' + '}' * DEPTH)
assert json.loads(json.dumps(a)) == a       # JSON itself copes
try:
    d = diff(a, b)
    ok = json.dumps(patch(a, d)) == json.dumps(b)
except RecursionError as e:
    print("VIOLATION (C02): diff() of two %d-level nested objects raised RecursionError (%s)" % (DEPTH, e))
    sys.exit(1)
if not ok:
    print("VIOLATION (C02): round trip differs"); sys.exit(1)
print("ok")
