"""C01: the nbformat v4 schema allows every multi-line string (source, stream
text, text/* payloads) as a list of lines -- the form found in every .ipynb
file, and what json.load + nbformat.from_dict gives.  diff_notebooks() fails on
such schema-valid notebooks as soon as two cells/outputs with different
list-form content have to be compared:

  - compare_text_approximate is lru_cache'd -> TypeError: unhashable type 'list'
  - _compare_mimedata does re_pointer.split(list) -> TypeError
  - diff_string_lines -> diff_strings_linewise asserts str (cells matched by id)

Run: PYTHONPATH=<tree> /venv/bin/python C01_list_form_multiline_strings.py
"""
import json, sys, warnings, traceback
warnings.simplefilter("ignore")
import nbformat
from nbdime import diff_notebooks, patch_notebook

def canon(x):
    return json.dumps(x, sort_keys=True)

def code(src, outputs=(), **kw):
    c = {"cell_type": "code", "source": src, "metadata": {}, "execution_count": None, "outputs": list(outputs)}
    c.update(kw)
    return c

def nb(cells, minor=4):
    n = nbformat.from_dict({"nbformat": 4, "nbformat_minor": minor, "metadata": {}, "cells": cells})
    nbformat.validate(n)
    return n

def dd(lines):
    return {"output_type": "display_data", "metadata": {}, "data": {"text/plain": lines}}

cases = [
    ("source as list of lines (no ids)", nb([code(["a = 1\n", "b = 2"])]), nb([code(["a = 1\n", "b = 3"])])),
    ("source as list of lines (same id)", nb([code(["a = 1\n", "b = 2"], id="c1")], 5), nb([code(["a = 1\n", "b = 3"], id="c1")], 5)),
    ("text/plain as list of lines", nb([code("x", [dd(["a\n", "b"])])]), nb([code("x", [dd(["a\n", "c"])])])),
]
bad = []
for name, A, B in cases:
    try:
        d = diff_notebooks(A, B)
        if canon(patch_notebook(A, d)) != canon(B):
            bad.append("%s: round trip differs" % name)
    except Exception as e:
        tb = traceback.extract_tb(sys.exc_info()[2])[-1]
        bad.append("%s: %s: %s (%s:%d in %s)" % (name, type(e).__name__, str(e)[:70], tb.filename.split("/")[-1], tb.lineno, tb.name))
if bad:
    print("VIOLATION (C01): schema-valid notebooks with list-form multi-line strings cannot be diffed")
    for m in bad:
        print(" -", m)
    sys.exit(1)
print("ok")
