"""C02/C01: 0.0 and -0.0 are different JSON values ("0.0" / "-0.0") but the
diff between them is empty, so diff+patch does not reproduce the target.

Run: PYTHONPATH=<tree> /venv/bin/python C02_negative_zero.py
"""
import json, sys, warnings
warnings.simplefilter("ignore")
import nbformat
from nbdime import diff, patch, diff_notebooks, patch_notebook

bad = []

def canon(x):
    return json.dumps(x, sort_keys=True)

# generic JSON documents
for a, b in [({"a": 0.0}, {"a": -0.0}), ([0.0], [-0.0]), ([-0.0, 1], [0.0, 1])]:
    assert canon(a) != canon(b)
    d = diff(a, b)
    p = patch(a, d)
    if not d:
        bad.append("diff(%s, %s) is empty although the documents serialise differently" % (canon(a), canon(b)))
    if canon(p) != canon(b):
        bad.append("patch(%s, diff) = %s, expected %s" % (canon(a), canon(p), canon(b)))

# notebook: a JSON payload of an output
def nb(v):
    n = nbformat.from_dict({
        "nbformat": 4, "nbformat_minor": 4, "metadata": {"threshold": v},
        "cells": [{"cell_type": "code", "source": "f()", "metadata": {}, "execution_count": 1,
                   "outputs": [{"output_type": "display_data", "metadata": {},
                                "data": {"application/json": {"x": [v, 1.5]}}}]}]})
    nbformat.validate(n)
    return n

A, B = nb(0.0), nb(-0.0)
d = diff_notebooks(A, B)
p = patch_notebook(A, d)
if not d:
    bad.append("diff_notebooks is empty although the notebooks differ (0.0 vs -0.0 in metadata and application/json)")
if canon(p) != canon(B):
    bad.append("patch_notebook result differs from B")

if bad:
    print("VIOLATION (C02/C01): -0.0 and 0.0 compare equal in compare_strict")
    for m in bad:
        print(" -", m)
    sys.exit(1)
print("ok")
