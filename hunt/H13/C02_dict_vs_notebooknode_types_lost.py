"""C02/C01: a changed value type (1 -> true, 1 -> 1.0) inside a nested object is
lost when one side holds the object as a plain dict and the other as a
NotebookNode.  patch() itself returns NotebookNode objects, so diffing a patch
result against freshly parsed JSON is enough; so is diffing
nbformat.from_dict(...) against json.load(...).

diff_dicts() only recurses when `type(avalue) is type(bvalue)`; dict vs
NotebookNode fails that test and falls through to compare_strict(), which for
containers is plain `==` (True == 1 == 1.0).

Run: PYTHONPATH=<tree> /venv/bin/python C02_dict_vs_notebooknode_types_lost.py
"""
import json, sys, warnings
warnings.simplefilter("ignore")
import nbformat
from nbdime import diff, patch, diff_notebooks, patch_notebook

def canon(x):
    return json.dumps(x, sort_keys=True)

bad = []

# 1. generic: the result of patch() diffed against a plain JSON document
a = {"k": {"flag": 1, "s": "x"}}
b = {"k": {"flag": 1, "s": "y"}}
p = patch(a, diff(a, b))                      # == b, but built from NotebookNode
assert canon(p) == canon(b)
c = json.loads('{"k": {"flag": true, "s": "y"}}')
assert canon(p) != canon(c)
d = diff(p, c)
if not d:
    bad.append("diff(patch(a, diff(a, b)), c) is empty although %s != %s" % (canon(p), canon(c)))
if canon(patch(p, d)) != canon(c):
    bad.append("patching gives %s, expected %s" % (canon(patch(p, d)), canon(c)))
# control: the same documents as plain dicts are handled
assert diff(json.loads(canon(p)), c), "control"

# 2. notebooks: one side normalised with nbformat.from_dict, the other plain JSON
def nbdict(v):
    return {"nbformat": 4, "nbformat_minor": 4,
            "metadata": {"kernelspec": {"name": "python3", "display_name": "Python 3"},
                         "papermill": {"parameters": {"debug": v}}},
            "cells": []}
A = nbformat.from_dict(nbdict(1))
B = nbdict(True)
nbformat.validate(A); nbformat.validate(nbformat.from_dict(B))
d = diff_notebooks(A, B)
if not d:
    bad.append("diff_notebooks(NotebookNode A, dict B) is empty although metadata.papermill.parameters.debug changed 1 -> true")
if canon(patch_notebook(A, d)) != canon(B):
    bad.append("patch_notebook gives debug=%r, expected True" % patch_notebook(A, d).metadata.papermill.parameters.debug)

if bad:
    print("VIOLATION (C02/C01)")
    for m in bad:
        print(" -", m)
    sys.exit(1)
print("ok")
