"""C01 (file interface): schema-valid notebook files that differ only in
metadata.orig_nbformat (a property the v4 schema defines explicitly),
metadata.signature or cells[*].metadata.trusted get an EMPTY diff from
`nbdiff --out`, and `nbpatch -o` does not rebuild B.  read_notebook() uses
nbformat.read(), which strips these keys (nbformat.v4.rwbase.strip_transient)
before nbdime sees them.  diff_notebooks on the in-memory notebooks is fine.

Run: PYTHONPATH=<tree> /venv/bin/python C01_file_interface_drops_transient_metadata.py
"""
import json, sys, os, tempfile, io, contextlib, warnings, logging, copy
warnings.simplefilter("ignore"); logging.disable(logging.CRITICAL)
import nbformat
import nbdime.nbdiffapp, nbdime.nbpatchapp
from nbdime import diff_notebooks, patch_notebook

BASE = {"nbformat": 4, "nbformat_minor": 4, "metadata": {},
        "cells": [{"cell_type": "code", "source": "x", "metadata": {}, "execution_count": None, "outputs": []}]}
def variant(f):
    n = copy.deepcopy(BASE); f(n); return n
cases = {
    "metadata.orig_nbformat": variant(lambda n: n["metadata"].update(orig_nbformat=3)),
    "metadata.signature": variant(lambda n: n["metadata"].update(signature="sha256:00")),
    "cells[0].metadata.trusted": variant(lambda n: n["cells"][0]["metadata"].update(trusted=True)),
}
tmp = tempfile.mkdtemp()
fa, fb, fd, fo = [os.path.join(tmp, n) for n in ("a.ipynb", "b.ipynb", "d.json", "o.ipynb")]
bad = []
for name, B in cases.items():
    nbformat.validate(nbformat.from_dict(BASE)); nbformat.validate(nbformat.from_dict(B))
    # in memory everything is fine
    A_, B_ = nbformat.from_dict(BASE), nbformat.from_dict(B)
    d = diff_notebooks(A_, B_)
    assert d and json.dumps(patch_notebook(A_, d), sort_keys=True) == json.dumps(B_, sort_keys=True)
    with open(fa, "w") as f: json.dump(BASE, f)
    with open(fb, "w") as f: json.dump(B, f)
    with contextlib.redirect_stdout(io.StringIO()):
        assert nbdime.nbdiffapp.main([fa, fb, "--out", fd]) == 0
        assert nbdime.nbpatchapp.main([fa, fd, "-o", fo]) == 0
    with open(fd) as f: dj = json.load(f)
    with open(fo) as f: out = json.load(f)
    got = out["cells"][0]["metadata"] if "cells" in name else out["metadata"]
    want = B["cells"][0]["metadata"] if "cells" in name else B["metadata"]
    if not dj:
        bad.append("%s: nbdiff --out wrote an empty diff for two different notebook files" % name)
    if got != want:
        bad.append("%s: nbpatch output has %r, B has %r" % (name, got, want))
if bad:
    print("VIOLATION (C01, file interface)")
    for m in bad:
        print(" -", m)
    sys.exit(1)
print("ok")
