#!/usr/bin/env python
"""C15: an in-line edit *after* an astral character (emoji) in a cell source.

Python's differ emits character-level patch ops whose keys count code points
(diff_strings_by_char on str); packages/nbdime/src/diff/util.ts
flattenStringDiff / patch/stringified.ts patchString apply them as UTF-16
code-unit offsets (String.prototype.slice / .length), so every op behind an
astral character lands one position too early per astral character.
exit 1 = the TypeScript patch result differs from the Python one."""
import glob
import json
import os
import re
import shutil
import subprocess
import tempfile

import nbdime

SRCROOT = os.path.join(
    os.path.dirname(os.path.dirname(os.path.abspath(nbdime.__file__))),
    'packages', 'nbdime', 'src')

FILES = [
    'common/util.ts', 'diff/diffentries.ts', 'diff/util.ts', 'diff/range.ts',
    'patch/common.ts', 'patch/generic.ts', 'patch/stringified.ts',
    'patch/index.ts', 'merge/decisions.ts',
]
STUBS = {
    '@lumino/coreutils': 'stubs/lumino.ts',
    'json-stable-stringify': 'stubs/stable.ts',
}
STUB_SRC = {
    # Faithful to @lumino/coreutils 2.x JSONExt.deepCopy
    'stubs/lumino.ts': r'''
function isPrimitive(v: any): boolean {
  return v === null || typeof v === 'boolean' || typeof v === 'number' || typeof v === 'string';
}
function deepCopy(value: any): any {
  if (isPrimitive(value)) { return value; }
  if (Array.isArray(value)) {
    const result = new Array(value.length);
    for (let i = 0, n = value.length; i < n; ++i) { result[i] = deepCopy(value[i]); }
    return result;
  }
  const result: any = {};
  for (const key of Object.keys(value)) {
    const subvalue = value[key];
    if (subvalue === undefined) { continue; }
    Object.defineProperty(result, key, { value: deepCopy(subvalue), writable: true, enumerable: true, configurable: true });
  }
  return result;
}
export const JSONExt = { deepCopy };
''',
    # Faithful to json-stable-stringify 1.0.2 (no cmp / replacer)
    'stubs/stable.ts': r'''
export default function stableStringify(obj: any, opts?: any): string {
  let space = (opts && opts.space) || '';
  if (typeof space === 'number') { space = Array(space + 1).join(' '); }
  return (function stringify(node: any, level: number): any {
    const indent = space ? ('\n' + new Array(level + 1).join(space)) : '';
    const colonSeparator = space ? ': ' : ':';
    if (node === undefined) { return; }
    if (typeof node !== 'object' || node === null) { return JSON.stringify(node); }
    if (Array.isArray(node)) {
      const out: string[] = [];
      for (let i = 0; i < node.length; i++) {
        const item = stringify(node[i], level + 1) || JSON.stringify(null);
        out.push(indent + space + item);
      }
      return '[' + out.join(',') + indent + ']';
    } else {
      const keys = Object.keys(node).sort();
      const out: string[] = [];
      for (let i = 0; i < keys.length; i++) {
        const key = keys[i];
        const value = stringify(node[key], level + 1);
        if (!value) { continue; }
        out.push(indent + space + JSON.stringify(key) + colonSeparator + value);
      }
      return '{' + out.join(',') + indent + '}';
    }
  })(obj, 0);
}
''',
}
IMPORT_RE = re.compile(
    r"^import\s+(type\s+)?(\{[^}]*\}|\*\s+as\s+\w+|\w+)\s+from\s+'([^']+)';",
    re.M | re.S)
EXPORT_RE = re.compile(
    r'^export\s+(?:default\s+)?(?:async\s+)?(?:function\*?|const|let|var|class)\s+([A-Za-z_$][\w$]*)',
    re.M)


def find_node():
    cands = [shutil.which(n) for n in ('node', 'nodejs')]
    for root in (os.path.expanduser('~'), '/root'):
        cands += glob.glob(os.path.join(root, '.nvm/versions/node/*/bin/node'))
    cands += glob.glob('/usr/local/n/versions/node/*/bin/node')
    cands += glob.glob('/opt/node*/bin/node') + glob.glob('/usr/local/bin/node*')
    best = None
    for c in cands:
        if not c:
            continue
        try:
            v = subprocess.run([c, '--version'], capture_output=True,
                               text=True, timeout=20).stdout.strip()
            ver = tuple(int(x) for x in re.match(r'v(\d+)\.(\d+)\.(\d+)', v).groups())
        except Exception:
            continue
        if ver >= (22, 7, 0) and (best is None or ver > best[0]):
            best = (ver, c)
    return best


def _resolve(frm, spec):
    base = os.path.normpath(os.path.join(os.path.dirname(frm), spec))
    for cand in (base + '.ts', os.path.join(base, 'index.ts')):
        if os.path.exists(os.path.join(SRCROOT, cand)):
            return cand
    return None


def _exports(rel, seen=None):
    seen = seen if seen is not None else set()
    if rel in seen:
        return set()
    seen.add(rel)
    src = open(os.path.join(SRCROOT, rel), encoding='utf8').read()
    names = set(EXPORT_RE.findall(src))
    for spec in re.findall(r"^export \* from '([^']+)';", src, re.M):
        tgt = _resolve(rel, spec)
        if tgt:
            names |= _exports(tgt, seen)
    return names


def _rewrite(rel, src):
    def relpath(target):
        r = os.path.relpath(target, os.path.dirname(rel) or '.').replace(os.sep, '/')
        return r if r.startswith('.') else './' + r

    def filtered(what, avail):
        names = [n.strip() for n in what.strip('{}').split(',') if n.strip()]
        keep = [n for n in names if n.split(' as ')[0].strip() in avail]
        return '{ ' + ', '.join(keep) + ' }' if keep else None

    def sub(m):
        is_type, what, spec = m.group(1), m.group(2), m.group(3)
        if is_type:
            return ''
        if spec in STUBS:
            target = STUBS[spec]
            avail = set(EXPORT_RE.findall(STUB_SRC[target]))
        elif spec.startswith('.'):
            target = _resolve(rel, spec)
            if target is None:
                return ''
            avail = _exports(target)
        else:
            return ''
        if what.startswith('{'):
            what = filtered(what, avail)
            if what is None:
                return ''
        return "import %s from '%s';" % (what, relpath(target))

    src = IMPORT_RE.sub(sub, src)
    return re.sub(r"^export \* from '([^']+)';",
                  lambda m: "export * from '%s';" % relpath(_resolve(rel, m.group(1))),
                  src, flags=re.M)


DRIVER = r'''
import { patch, patchStringified } from './patch/index.ts';
import { MergeDecision, applyDecisions } from './merge/decisions.ts';
import * as fs from 'node:fs';
const jobs = JSON.parse(fs.readFileSync(process.argv[2], 'utf8'));
const out: any[] = [];
console.log = () => {}; console.warn = () => {}; console.assert = () => {};
for (const jobText of jobs) {
  try {
    const job = JSON.parse(jobText);
    let res: any;
    if (job.kind === 'patch') {
      res = { result: patch(job.base, job.diff) };
    } else if (job.kind === 'stringified') {
      const r = patchStringified(job.base, job.diff);
      res = { remote: r.remote,
              additions: r.additions.map((x: any) => [x.from, x.to]),
              deletions: r.deletions.map((x: any) => [x.from, x.to]) };
    } else {
      const decs = job.decisions.map((d: any) => new MergeDecision(d));
      res = { result: applyDecisions(job.base, decs) };
    }
    res.ok = true;
    out.push(res);
  } catch (e: any) {
    out.push({ ok: false, error: String(e && e.name) + ': ' + String(e && e.message) });
  }
}
fs.writeFileSync(process.argv[3], JSON.stringify(out));
'''

_NODE = None


def run_ts(jobs, timeout=25):
    global _NODE
    if _NODE is None:
        _NODE = find_node()
    node = _NODE
    if node is None:
        return None
    tmp = tempfile.mkdtemp(prefix='nbdime-ts-')
    try:
        for rel in FILES:
            src = open(os.path.join(SRCROOT, rel), encoding='utf8').read()
            dst = os.path.join(tmp, rel)
            os.makedirs(os.path.dirname(dst), exist_ok=True)
            with open(dst, 'w', encoding='utf8') as f:
                f.write(_rewrite(rel, src))
        for rel, src in STUB_SRC.items():
            dst = os.path.join(tmp, rel)
            os.makedirs(os.path.dirname(dst), exist_ok=True)
            with open(dst, 'w', encoding='utf8') as f:
                f.write(src)
        with open(os.path.join(tmp, 'driver.ts'), 'w') as f:
            f.write(DRIVER)
        with open(os.path.join(tmp, 'jobs.json'), 'w') as f:
            json.dump([j if isinstance(j, str) else json.dumps(j) for j in jobs], f)
        p = subprocess.run(
            [node[1], '--experimental-transform-types', '--no-warnings',
             os.path.join(tmp, 'driver.ts'), os.path.join(tmp, 'jobs.json'),
             os.path.join(tmp, 'out.json')],
            capture_output=True, text=True, timeout=timeout, cwd=tmp)
        if p.returncode != 0:
            raise RuntimeError('node could not run the TypeScript sources:\n'
                               + p.stdout + p.stderr)
        with open(os.path.join(tmp, 'out.json')) as f:
            return json.load(f)
    finally:
        shutil.rmtree(tmp, ignore_errors=True)


def canon(x):
    return json.dumps(x, sort_keys=True, ensure_ascii=True)



# ---------------------------------------------------------------------------
# helpers shared by the cases
# ---------------------------------------------------------------------------
import copy
import sys
import nbformat
from nbdime import diff_notebooks, patch as py_patch
from nbdime.diff_utils import to_diffentry_dicts


def notebook(cells, metadata=None, minor=5):
    nb = {'nbformat': 4, 'nbformat_minor': minor, 'metadata': metadata or {}, 'cells': []}
    for i, c in enumerate(cells):
        c = copy.deepcopy(c)
        if minor >= 5:
            c.setdefault('id', 'cell-%d' % i)
        nb['cells'].append(c)
    nb = nbformat.from_dict(nb)
    nbformat.validate(nb)          # inputs are valid notebooks
    return nb


def code(source, outputs=(), metadata=None):
    return {'cell_type': 'code', 'metadata': metadata or {}, 'source': source,
            'execution_count': None, 'outputs': list(outputs)}


def server_diff(base, remote):
    """What ApiDiffHandler sends: base + diff, through JSON."""
    d = diff_notebooks(base, remote)
    wire = json.dumps({'base': base, 'diff': d})
    return wire


def python_patch(wire_text):
    w = json.loads(wire_text)
    return json.loads(json.dumps(py_patch(w['base'], to_diffentry_dicts(w['diff']))))


def need_node():
    if find_node() is None:
        print('SKIP: no node >= 22.7 found')
        sys.exit(0)


def subdiff(diff, *keys):
    for k in keys:
        diff = [e for e in diff if e['key'] == k][0]['diff']
    return diff

def main():
    need_node()
    base = notebook([code("s = '\U0001F600 hello world'\n")])
    remote = copy.deepcopy(base)
    remote.cells[0].source = "s = '\U0001F600 hello wurld'\n"
    wire = server_diff(base, remote)
    expected = python_patch(wire)
    assert canon(expected) == canon(json.loads(json.dumps(remote))), 'python patch must reproduce remote'
    w = json.loads(wire)
    src_diff = subdiff(w['diff'], 'cells', 0, 'source')
    res = run_ts([{'kind': 'patch', 'base': w['base'], 'diff': w['diff']},
                  {'kind': 'stringified', 'base': w['base']['cells'][0]['source'], 'diff': src_diff}])
    print('source diff sent by the server:', json.dumps(src_diff))
    bad = 0
    r = res[0]
    got = r['result']['cells'][0]['source'] if r['ok'] else r['error']
    print('python  patch  -> %r' % expected['cells'][0]['source'])
    print('ts      patch  -> %r' % got)
    if not (r['ok'] and canon(r['result']) == canon(expected)):
        bad += 1
    r = res[1]
    got = r['remote'] if r['ok'] else r['error']
    print('ts patchStringified(source) (what the diff view shows as remote) -> %r' % got)
    if got != expected['cells'][0]['source']:
        bad += 1
    print('VIOLATION' if bad else 'agree')
    return 1 if bad else 0


if __name__ == '__main__':
    sys.exit(main())
