"""C08: a failure while writing the result destroys the pre-existing output
(for the git merge driver: the user's local version, the %A file).

The output is opened with mode "w" (truncating it) before the content is
written, so any failure of the write itself leaves an empty / partial file.
Two ways to make the write fail, both with valid inputs:
 (1) the local notebook holds a lone surrogate (JSON escape "\\ud800" inside a
     source string: well-formed JSON, schema-valid notebook): encoding to
     UTF-8 fails after the truncation;
 (2) a file size limit (RLIMIT_FSIZE, like a quota / full disk) smaller than
     the merged notebook: the file is left as a JSON fragment.
In both cases the command exits non-zero (good) but the output is not left
untouched.
"""
import json, os, subprocess, sys, tempfile, resource
import nbformat

PY = sys.executable
td = tempfile.mkdtemp()
problems = []


def write_nb(name, src):
    nb = {"cells": [{"cell_type": "code", "execution_count": None, "metadata": {},
                     "outputs": [], "source": src}],
          "metadata": {}, "nbformat": 4, "nbformat_minor": 4}
    text = json.dumps(nb, indent=1)          # lone surrogate is written as the escape \ud800
    path = os.path.join(td, name)
    with open(path, "w", encoding="ascii") as f:
        f.write(text)
    json.loads(text)                          # well-formed JSON
    nbformat.validate(nbformat.read(path, as_version=4))   # valid notebook
    return path


def run(cmd, **kw):
    p = subprocess.run(cmd, capture_output=True, cwd=td, **kw)
    return p.returncode, p.stderr.decode("utf8", "replace")


# ---- (1) lone surrogate, one-sided change (not even a conflict)
b = write_nb("b.ipynb", "x = 1\n")
l = write_nb("l.ipynb", "x = 1\ns = '\ud800'\n")
r = write_nb("r.ipynb", "x = 1\n")

out = os.path.join(td, "out.ipynb")
old = "PREVIOUS CONTENT\n"
with open(out, "w") as f:
    f.write(old)
rc, err = run([PY, "-m", "nbdime.nbmergeapp", b, l, r, "--out", out])
now = open(out).read()
if rc == 0:
    problems.append("nbmerge --out: exit 0 although writing failed")
if now != old:
    problems.append("nbmerge --out: exit %d (%s) but pre-existing output changed from %r to %r"
                    % (rc, err.strip().splitlines()[-1][:80], old, now))

a = os.path.join(td, "A.ipynb")
local_bytes = open(l, "rb").read()
with open(a, "wb") as f:
    f.write(local_bytes)
rc, err = run([PY, "-m", "nbdime.vcs.git.mergedriver", "merge", b, a, r, "7", "nb.ipynb"])
now = open(a, "rb").read()
if now != local_bytes:
    problems.append("git merge driver: exit %d but the local file (%%A) went from %d bytes to %d bytes"
                    % (rc, len(local_bytes), len(now)))

# ---- (2) file size limit hit in the middle of the write
big = "".join("v%d = %d\n" % (i, i) for i in range(3000))
b2 = write_nb("b2.ipynb", "x = 1\n")
l2 = write_nb("l2.ipynb", "x = 1\n" + big)
r2 = write_nb("r2.ipynb", "x = 1\n")
a2 = os.path.join(td, "A2.ipynb")
local_bytes = open(l2, "rb").read()
with open(a2, "wb") as f:
    f.write(local_bytes)


def limit():
    resource.setrlimit(resource.RLIMIT_FSIZE, (8192, 8192))


rc, err = run([PY, "-m", "nbdime.vcs.git.mergedriver", "merge", b2, a2, r2, "7", "nb.ipynb"],
              preexec_fn=limit)
now = open(a2, "rb").read()
if now != local_bytes:
    try:
        json.loads(now.decode("utf8"))
        wf = "well-formed"
    except Exception:
        wf = "NOT well-formed JSON"
    problems.append("git merge driver under a file size limit: exit %d, local file (%%A) went from %d to %d bytes (%s)"
                    % (rc, len(local_bytes), len(now), wf))

if problems:
    print("\n".join(problems))
    sys.exit(1)
print("ok")
