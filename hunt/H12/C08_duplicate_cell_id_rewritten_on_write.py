"""C08: the file written by nbmerge / the git merge driver is NOT the notebook
the library merge returns: a cell id is replaced by a fresh random one at write
time, so two runs on the same inputs give different bytes.

format 4.5 notebooks with cell ids
base  : [A, B]
local : [B, A]            (cell B moved in front of A, unchanged)
remote: [A, B']           (source of B edited)
The move is diffed as "insert a copy of B + delete B"; the deletion conflicts
with remote's edit, the inserted copy does not.  With use-remote (also with the
default inline strategy) the merge keeps both -> two cells with id "bbbb".
nbformat.write() validates, "repairs" the duplicate id with a random uuid, and
that is what lands in --out / %A.
"""
import copy, io, json, logging, os, subprocess, sys, tempfile, warnings
import nbformat
from nbformat.v4 import new_notebook, new_code_cell
from nbdime.merging.notebooks import merge_notebooks

logging.disable(logging.CRITICAL)
warnings.simplefilter("ignore")
PY = sys.executable
td = tempfile.mkdtemp()


class Args:
    merge_strategy = "use-remote"; input_strategy = None; output_strategy = None
    ignore_transients = True; log_level = "INFO"


def cell(id, src):
    c = new_code_cell(source=src); c["id"] = id
    return c


def nb(cells):
    n = new_notebook(); n.nbformat_minor = 5; n.cells = cells
    return n


A = cell("aaaa", "import os\nimport sys\n")
B = cell("bbbb", "def f(x):\n    return x + 1\n\nprint(f(1))\n")
B2 = cell("bbbb", "def f(x):\n    return x + 2\n\nprint(f(1))\n")
files = {}
for name, n in (("b", nb([A, B])), ("l", nb([B, A])), ("r", nb([A, B2]))):
    # valid, and no duplicate ids in any input
    assert len({c["id"] for c in n.cells}) == len(n.cells)
    nbformat.validate(copy.deepcopy(n))
    files[name] = os.path.join(td, name + ".ipynb")
    nbformat.write(n, files[name])

rd = lambda f: nbformat.read(f, as_version=4)
merged, decisions = merge_notebooks(rd(files["b"]), rd(files["l"]), rd(files["r"]), Args)
lib = json.loads(json.dumps(merged))
lib_ids = [c["id"] for c in lib["cells"]]

outs = []
for k in range(2):
    out = os.path.join(td, "out%d.ipynb" % k)
    p = subprocess.run([PY, "-m", "nbdime.nbmergeapp", "--merge-strategy", "use-remote",
                        files["b"], files["l"], files["r"], "--out", out], capture_output=True)
    outs.append((p.returncode, json.load(open(out))))

problems = []
for k, (rc, got) in enumerate(outs):
    if got != lib:
        problems.append("run %d: exit %d, --out has cell ids %r but the library merge returned %r"
                        % (k, rc, [c["id"] for c in got["cells"]], lib_ids))
if outs[0][1] != outs[1][1]:
    problems.append("two runs on identical inputs wrote different notebooks")
if len(set(lib_ids)) != len(lib_ids):
    problems.append("(library merge result itself has duplicate cell ids %r, conflicts flagged: %s)"
                    % (lib_ids, any(d.conflict for d in decisions)))
if problems:
    print("\n".join(problems))
    sys.exit(1)
print("ok")
