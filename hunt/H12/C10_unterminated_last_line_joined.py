"""C10 (third clause): a use-* merge yields a source line that is in none of the inputs.

base  : one code cell, source "a\nb"       (last line has no terminator)
local : deletes the last line  -> "a"
remote: appends a line         -> "a\nb\nd"
Every use-* strategy (and the open merge) gives "ab\nd": the line "ab" exists
in no input.  No conflict is even reported.
"""
import sys, logging
import nbformat
from nbformat.v4 import new_notebook, new_code_cell
from nbdime.merging.notebooks import merge_notebooks

logging.disable(logging.CRITICAL)


class Args:
    def __init__(self, m, i=None, o=None, t=True):
        self.merge_strategy = m; self.input_strategy = i; self.output_strategy = o
        self.ignore_transients = t; self.log_level = "INFO"


def nb(src):
    n = new_notebook(); n.nbformat_minor = 4
    c = new_code_cell(source=src); c.pop("id", None)
    n.cells = [c]
    nbformat.validate(n)
    return n


def lines(n):
    return {ln for c in n.cells for ln in c.source.splitlines()}


b, l, r = "a\nb", "a", "a\nb\nd"
inputs = lines(nb(b)) | lines(nb(l)) | lines(nb(r))
bad = []
for args in (Args("use-base"), Args("use-local"), Args("use-remote"),
             Args("inline", "use-local", "use-local"), Args("use-remote", t=False)):
    merged, decisions = merge_notebooks(nb(b), nb(l), nb(r), args)
    new = [ln for ln in lines(merged) if ln.strip() and ln not in inputs]
    if new:
        bad.append((args.merge_strategy, args.input_strategy, merged.cells[0].source, new,
                    any(d.conflict for d in decisions)))
if bad:
    for m, i, src, new, conf in bad:
        print("strategy %s/%s: merged source %r contains line(s) %r found in no input (conflict flagged: %s)"
              % (m, i, src, new, conf))
    sys.exit(1)
print("ok")
