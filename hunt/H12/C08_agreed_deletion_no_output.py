"""C08: local and remote both given as the missing-file placeholder (deleted on
both sides): nbmerge exits 0 but leaves NO notebook at the designated output:
an existing --out file is deleted, and without --out nothing is printed.
The library merge of (base, empty, empty) returns a notebook (no cells).
"""
import copy, io, json, logging, os, subprocess, sys, tempfile
import nbformat
from nbformat.v4 import new_notebook, new_code_cell
from nbdime.utils import EXPLICIT_MISSING_FILE, read_notebook
from nbdime.merging.notebooks import merge_notebooks

logging.disable(logging.CRITICAL)
PY = sys.executable
td = tempfile.mkdtemp()
n = new_notebook(); n.nbformat_minor = 4
c = new_code_cell(source="x = 1\n"); c.pop("id", None)
n.cells = [c]
nbformat.validate(copy.deepcopy(n))
base = os.path.join(td, "b.ipynb")
nbformat.write(n, base)

merged, decisions = merge_notebooks(read_notebook(base, on_null="minimal"),
                                    read_notebook(EXPLICIT_MISSING_FILE, on_null="minimal"),
                                    read_notebook(EXPLICIT_MISSING_FILE, on_null="minimal"), None)
lib_conflict = any(d.conflict for d in decisions)

problems = []
out = os.path.join(td, "out.ipynb")
with open(out, "w") as f:
    f.write("PREVIOUS\n")
p = subprocess.run([PY, "-m", "nbdime.nbmergeapp", base, EXPLICIT_MISSING_FILE, EXPLICIT_MISSING_FILE, "--out", out],
                   capture_output=True)
if p.returncode == 0 and not os.path.exists(out):
    problems.append("--out: exit 0 but the output file was removed instead of holding the merged notebook "
                    "(library merge: %d cells, conflict=%s)" % (len(merged.cells), lib_conflict))
p = subprocess.run([PY, "-m", "nbdime.nbmergeapp", base, EXPLICIT_MISSING_FILE, EXPLICIT_MISSING_FILE],
                   capture_output=True)
if p.returncode == 0:
    try:
        json.loads(p.stdout.decode("utf8"))
    except Exception as e:
        problems.append("stdout: exit 0 but stdout is %r, not a notebook" % p.stdout[:40])
if problems:
    print("\n".join(problems))
    sys.exit(1)
print("ok")
