"""C08: without --out the merged notebook goes to stdout; in a non-UTF-8 locale
nbdime re-wraps stdout with errors='backslashreplace', so every character the
locale cannot encode is written as \\xNN / \\uNNNN / \\UNNNNNNNN.  \\xNN and
\\UNNNNNNNN are not JSON escapes: exit status 0, output not well-formed JSON
(and \\uNNNN silently changes the bytes but happens to stay JSON).

Reproduced here with the C locale and Python's UTF-8 mode / locale coercion
switched off (what a latin-1 / cp1252 environment gives by default).
"""
import copy, json, os, subprocess, sys, tempfile
import nbformat
from nbformat.v4 import new_notebook, new_markdown_cell

PY = sys.executable
td = tempfile.mkdtemp()
files = {}
for name, src in (("b", "café\n"), ("l", "café\nsmile \U0001F600\n"), ("r", "café\n")):
    n = new_notebook(); n.nbformat_minor = 4
    c = new_markdown_cell(source=src); c.pop("id", None)
    n.cells = [c]
    nbformat.validate(copy.deepcopy(n))
    files[name] = os.path.join(td, name + ".ipynb")
    nbformat.write(n, files[name])

env = dict(os.environ, LC_ALL="C", LANG="C", PYTHONUTF8="0", PYTHONCOERCECLOCALE="0")
env.pop("PYTHONIOENCODING", None)
p = subprocess.run([PY, "-m", "nbdime.nbmergeapp", files["b"], files["l"], files["r"]],
                   capture_output=True, env=env)
try:
    got = json.loads(p.stdout.decode("ascii"))
    ok = got["cells"][0]["source"] in ("café\nsmile \U0001F600\n", ["café\n", "smile \U0001F600\n"])
    msg = None if ok else "stdout is JSON but the source is %r" % (got["cells"][0]["source"],)
except Exception as e:
    bad = [ln.strip() for ln in p.stdout.decode("ascii", "replace").splitlines() if "\\x" in ln or "\\U" in ln]
    msg = "exit %d but stdout is not well-formed JSON (%s); offending lines: %r" % (p.returncode, e, bad)
if msg:
    print(msg)
    sys.exit(1)
print("ok")
