import sys, random, copy, itertools, traceback, logging, collections
import nbformat
from nbformat.v4 import new_notebook, new_code_cell, new_markdown_cell, new_raw_cell, new_output
import nbdime, nbdime.log
from nbdime.merging.notebooks import merge_notebooks
import nbdime.prettyprint as pp

logging.disable(logging.CRITICAL)

class Args:
    def __init__(s, m, i, o, t):
        s.merge_strategy = m; s.input_strategy = i; s.output_strategy = o
        s.ignore_transients = t; s.log_level = __import__("os").environ.get("FUZZ_LOG", "INFO")

WORDS = ["alpha", "beta", "gamma", "delta", "x = 1", "y = 2", "print(x)", "", "import os", "def f():", "    return 1", "# c"]

def rline(r):
    return r.choice(WORDS)

def rsource(r):
    n = r.choice([0, 1, 1, 2, 3, 5])
    lines = [rline(r) for _ in range(n)]
    s = "\n".join(lines)
    if n and r.random() < 0.3:
        s += "\n"
    return s

def routput(r):
    k = r.choice(["stream", "stream", "execute_result", "display_data", "error"])
    if k == "stream":
        return new_output("stream", name=r.choice(["stdout", "stderr"]), text=rsource(r) or "t\n")
    if k == "execute_result":
        data = {"text/plain": rsource(r) or "1"}
        if r.random() < 0.4:
            data["image/png"] = r.choice(["iVBORw0KGgo=", "AAAA", "BBBBBB=="])
        if r.random() < 0.2:
            data["application/json"] = {"a": r.randint(0, 3), "b": [1, 2]}
        return new_output("execute_result", data=data, execution_count=r.choice([None, 1, 2, 3]),
                          metadata=rmeta(r, small=True))
    if k == "display_data":
        data = {"text/plain": rsource(r) or "1"}
        if r.random() < 0.4:
            data["text/html"] = "<b>%s</b>" % rline(r)
        return new_output("display_data", data=data, metadata=rmeta(r, small=True))
    return new_output("error", ename=r.choice(["E", "ValueError"]), evalue=rline(r), traceback=[rline(r) for _ in range(r.randint(0, 3))])

def rmeta(r, small=False):
    md = {}
    if r.random() < 0.3:
        md["collapsed"] = r.choice([True, False])
    if r.random() < 0.2:
        md["scrolled"] = r.choice([True, False, "auto"])
    if r.random() < 0.3:
        md["labels"] = [r.choice(["a", "b", "c", "d"]) for _ in range(r.randint(0, 3))]
    if not small and r.random() < 0.3:
        md["nested"] = {"k": r.randint(0, 3), "l": [r.randint(0, 2) for _ in range(r.randint(0, 3))], "s": rsource(r)}
    if r.random() < 0.15:
        md[r.choice(["3", "foo", "nm"])] = r.choice([1, "v", None, {"q": 1}, [1]])
    return md

def rcell(r, with_id):
    k = r.choice(["code", "code", "code", "markdown", "raw"])
    if k == "code":
        c = new_code_cell(source=rsource(r), execution_count=r.choice([None, 1, 2, 3]),
                          outputs=[routput(r) for _ in range(r.choice([0, 0, 1, 2, 3]))], metadata=rmeta(r))
    elif k == "markdown":
        c = new_markdown_cell(source=rsource(r), metadata=rmeta(r))
        if r.random() < 0.4:
            c["attachments"] = {("img%d.png" % i): {"image/png": r.choice(["AAAA", "BBBB", "CCCC"])} for i in range(r.randint(0, 2))}
    else:
        c = new_raw_cell(source=rsource(r), metadata=rmeta(r))
    if with_id:
        c["id"] = "id%06d" % r.randint(0, 10**6 - 1)
    else:
        c.pop("id", None)
    return c

def rnotebook(r, with_id):
    nb = new_notebook()
    nb.nbformat_minor = 5 if with_id else 4
    nb.metadata = nbformat.from_dict(rmeta(r))
    if r.random() < 0.5:
        nb.metadata["kernelspec"] = {"name": "python3", "display_name": "Python 3", "language": "python"}
    nb.cells = [rcell(r, with_id) for _ in range(r.choice([0, 1, 2, 3, 4, 6]))]
    return nb

def edit_source(r, s):
    lines = s.splitlines(True)
    for _ in range(r.randint(1, 3)):
        op = r.choice(["ins", "del", "mod", "app"])
        if op == "ins" or not lines:
            i = r.randint(0, len(lines))
            lines.insert(i, rline(r) + "\n")
        elif op == "del":
            del lines[r.randrange(len(lines))]
        elif op == "mod":
            i = r.randrange(len(lines))
            lines[i] = lines[i].rstrip("\n") + r.choice([" #e", "!", " + 1"]) + ("\n" if lines[i].endswith("\n") else "")
        else:
            if lines and not lines[-1].endswith("\n"):
                lines[-1] += "\n"
            lines.append(rline(r))
    if r.random() < 0.1:
        return ""
    return "".join(lines)

def edit_meta(r, md):
    for _ in range(r.randint(1, 2)):
        op = r.choice(["set", "del", "nest", "labels"])
        if op == "set":
            k = r.choice(["collapsed", "scrolled", "foo", "3", "nm", "autoscroll"])
            if k in ("collapsed", "scrolled", "autoscroll"):
                md[k] = r.choice([True, False])
            else:
                md[k] = r.choice([True, False, 1, "v", None, {"q": r.randint(0, 2)}, [r.randint(0, 2)]])
        elif op == "del" and md:
            del md[r.choice(sorted(md))]
        elif op == "nest":
            n = md.get("nested")
            if isinstance(n, dict):
                n[r.choice(["k", "l", "s", "z"])] = r.choice([1, [1, 2, 3], rsource(r), {"a": 1}])
            else:
                md["nested"] = {"k": 1}
        else:
            t = md.get("labels")
            if isinstance(t, list):
                if t and r.random() < 0.5:
                    del t[r.randrange(len(t))]
                else:
                    t.insert(r.randint(0, len(t)), r.choice(["a", "b", "c", "z"]))
            else:
                md["labels"] = ["z"]

def edit_output(r, o):
    t = o["output_type"]
    if t == "stream":
        if r.random() < 0.2:
            o["name"] = "stderr" if o["name"] == "stdout" else "stdout"
        else:
            o["text"] = edit_source(r, o["text"]) or "t"
    elif t in ("execute_result", "display_data"):
        op = r.choice(["text", "add", "del", "meta", "ec"])
        if op == "text":
            k = r.choice(sorted(o["data"]))
            if isinstance(o["data"][k], str):
                o["data"][k] = edit_source(r, o["data"][k]) or "1"
            else:
                o["data"][k] = {"a": r.randint(0, 5)}
        elif op == "add":
            o["data"][r.choice(["text/html", "image/png", "text/latex"])] = r.choice(["AAAA", "CCCC", "<i>x</i>"])
        elif op == "del" and len(o["data"]) > 1:
            del o["data"][r.choice(sorted(o["data"]))]
        elif op == "meta":
            edit_meta(r, o["metadata"])
        elif t == "execute_result":
            o["execution_count"] = r.choice([None, 4, 5, 6])
    else:
        op = r.choice(["ename", "evalue", "tb"])
        if op == "tb":
            o["traceback"] = o["traceback"] + [rline(r)] if r.random() < 0.5 else o["traceback"][1:]
        else:
            o[op] = rline(r) + "x"

def edit_cell(r, c):
    ops = ["source", "source", "meta"]
    if c["cell_type"] == "code":
        ops += ["outputs", "outputs", "ec", "ec"]
    if c["cell_type"] == "markdown":
        ops += ["attach"]
    for op in set(r.choice(ops) for _ in range(r.randint(1, 3))):
        if op == "source":
            c["source"] = edit_source(r, c["source"])
        elif op == "meta":
            edit_meta(r, c["metadata"])
        elif op == "ec":
            c["execution_count"] = r.choice([None, 7, 8, 9])
        elif op == "outputs":
            outs = c["outputs"]
            for _ in range(r.randint(1, 2)):
                o2 = r.choice(["ins", "del", "mod", "mod", "clear"])
                if o2 == "ins" or not outs:
                    outs.insert(r.randint(0, len(outs)), routput(r))
                elif o2 == "del":
                    del outs[r.randrange(len(outs))]
                elif o2 == "mod":
                    edit_output(r, outs[r.randrange(len(outs))])
                else:
                    if r.random() < 0.3:
                        del outs[:]
        elif op == "attach":
            a = c.setdefault("attachments", {})
            o2 = r.choice(["add", "del", "mod"])
            if o2 == "add" or not a:
                a["img%d.png" % r.randint(0, 3)] = {"image/png": r.choice(["AAAA", "DDDD", "EEEE"])}
            elif o2 == "del":
                del a[r.choice(sorted(a))]
                if not a and r.random() < 0.5:
                    del c["attachments"]
            else:
                k = r.choice(sorted(a))
                a[k] = {r.choice(["image/png", "image/jpeg"]): r.choice(["FFFF", "GGGG"])}

def pick(r, n, focus):
    if n and focus is not None and r.random() < 0.75:
        return min(max(0, focus + r.choice([0, 0, 0, 1, -1])), n - 1)
    return r.randrange(n)

def edit_notebook(r, nb, with_id, focus=None):
    nb = copy.deepcopy(nb)
    if focus is not None and nb.cells:
        f = r.choice(["edit", "edit", "edit", "edit", "del", "insb", "insa", "none"])
        if f == "edit":
            for _ in range(r.randint(1, 2)):
                edit_cell(r, nb.cells[focus])
        elif f == "del":
            del nb.cells[focus]
        elif f == "insb":
            nb.cells.insert(focus, rcell(r, with_id))
        elif f == "insa":
            nb.cells.insert(focus + 1, rcell(r, with_id))
        focus = None
    for _ in range(r.randint(0, 3)):
        op = r.choice(["edit", "edit", "edit", "del", "ins", "ins2", "nbmeta", "minor", "move", "type"])
        cells = nb.cells
        if op == "edit" and cells:
            edit_cell(r, cells[pick(r, len(cells), focus)])
        elif op == "del" and cells:
            i = pick(r, len(cells), focus)
            del cells[i:i + r.choice([1, 1, 2])]
        elif op == "ins":
            cells.insert(pick(r, len(cells) + 1, focus), rcell(r, with_id))
        elif op == "ins2":
            i = r.randint(0, len(cells))
            cells[i:i] = [rcell(r, with_id), rcell(r, with_id)]
        elif op == "nbmeta":
            edit_meta(r, nb.metadata)
        elif op == "minor" and r.random() < 0.3:
            nb.nbformat_minor = nb.nbformat_minor + r.choice([0, 1]) if with_id else r.choice([2, 3, 4])
        elif op == "move" and len(cells) > 1:
            i = r.randrange(len(cells)); c = cells.pop(i); cells.insert(r.randint(0, len(cells)), c)
        elif op == "type" and cells:
            i = r.randrange(len(cells)); c = cells[i]
            n = new_markdown_cell(source=c["source"]) if c["cell_type"] != "markdown" else new_raw_cell(source=c["source"])
            if with_id: n["id"] = c["id"]
            else: n.pop("id", None)
            cells[i] = n
    return nb

def shared_edit(r, b, l, rr, with_id):
    """Make the same edit on both sides (cherry-pick style), maybe plus a one-sided extra"""
    kind = r.choice(["cell_ins", "cell_rep", "out_ins", "out_rep", "meta", "attach"])
    if kind in ("cell_ins", "cell_rep"):
        n = min(len(l.cells), len(rr.cells))
        i = r.randint(0, n)
        c = rcell(r, with_id)
        for nb in (l, rr):
            if kind == "cell_rep" and i < len(nb.cells):
                nb.cells[i:i + 1] = [copy.deepcopy(c)]
            else:
                nb.cells.insert(i, copy.deepcopy(c))
        if r.random() < 0.5:
            side = r.choice([l, rr])
            side.cells.insert(min(i + r.choice([0, 1]), len(side.cells)), rcell(r, with_id))
    elif kind in ("out_ins", "out_rep"):
        idx = [k for k in range(min(len(l.cells), len(rr.cells)))
               if l.cells[k]["cell_type"] == "code" and rr.cells[k]["cell_type"] == "code"]
        if not idx:
            return
        k = r.choice(idx)
        o = routput(r)
        for nb in (l, rr):
            outs = nb.cells[k]["outputs"]
            i = r.randint(0, len(outs))
            if kind == "out_rep" and outs:
                outs[:] = [copy.deepcopy(o)]
            else:
                outs.insert(min(i, len(outs)), copy.deepcopy(o))
        if r.random() < 0.5:
            side = r.choice([l, rr])
            side.cells[k]["outputs"].append(routput(r))
    elif kind == "meta":
        v = r.choice([1, "v", {"q": 2}, [3]])
        key = r.choice(["foo", "bar", "nested"])
        for nb in (l, rr):
            nb.metadata[key] = copy.deepcopy(v)
    else:
        for nb in (l, rr):
            for c in nb.cells:
                if c["cell_type"] == "markdown":
                    c.setdefault("attachments", {})["shared.png"] = {"image/png": "SSSS"}
                    break

def targeted(r, b, l, rr, with_id):
    """Independent edits of the same target on both sides"""
    if r.random() < 0.06:
        if with_id:
            l.nbformat_minor, rr.nbformat_minor = r.sample([5, 6, 7], 2)
        else:
            l.nbformat_minor, rr.nbformat_minor = r.sample([1, 2, 3, 4], 2)
        if r.random() < 0.5:
            l.metadata["foo"] = 1; rr.metadata["foo"] = 2
    if not b.cells:
        return
    k = r.randrange(len(b.cells))
    lc, rc = l.cells[k], rr.cells[k]
    ct = b.cells[k]["cell_type"]
    kinds = ["source", "meta", "metakey", "del_edit", "ins_edit", "ins_del"]
    if ct == "code":
        kinds += ["output", "output", "out_append", "ec", "outmeta", "outec", "out_del_edit", "out_ins_edit"]
    if ct == "markdown":
        kinds += ["attach", "attach", "attach_add"]
    kind = r.choice(kinds)
    sides = [(l, lc), (rr, rc)]
    r.shuffle(sides)
    (n1, c1), (n2, c2) = sides
    if kind == "source":
        c1["source"] = edit_source(r, c1["source"]); c2["source"] = edit_source(r, c2["source"])
    elif kind == "meta":
        edit_meta(r, c1["metadata"]); edit_meta(r, c2["metadata"])
    elif kind == "metakey":
        key = r.choice(["foo", "3", "nested", "collapsed", "labels"])
        vals = [True, False, 1, 1.0, "v", "w", None, {"q": 1}, {"q": 2}, [1], [2], "a\nb\nc", "a\nB\nc"]
        if key == "collapsed":
            vals = [True, False]
        c1["metadata"][key] = r.choice(vals)
        if r.random() < 0.3:
            c2["metadata"].pop(key, None)
        else:
            c2["metadata"][key] = r.choice(vals)
    elif kind == "ec":
        c1["execution_count"] = r.choice([None, 11, 12]); c2["execution_count"] = r.choice([None, 13, 14])
    elif kind in ("output", "outmeta", "outec", "out_del_edit", "out_ins_edit") and c1["outputs"]:
        j = r.randrange(len(c1["outputs"]))
        o1, o2 = c1["outputs"][j], c2["outputs"][j]
        if kind == "output":
            edit_output(r, o1); edit_output(r, o2)
        elif kind == "outmeta" and "metadata" in o1:
            edit_meta(r, o1["metadata"]); edit_meta(r, o2["metadata"])
        elif kind == "outec" and "execution_count" in o1:
            o1["execution_count"] = r.choice([None, 21, 22]); o2["execution_count"] = r.choice([None, 23, 24])
            if r.random() < 0.5 and len(c1["outputs"]) > 1:
                j2 = (j + 1) % len(c1["outputs"])
                edit_output(r, c1["outputs"][j2]); edit_output(r, c2["outputs"][j2])
        elif kind == "out_del_edit":
            del c1["outputs"][j]; edit_output(r, o2)
        else:
            c1["outputs"].insert(j, routput(r))
            if r.random() < 0.5:
                edit_output(r, o2)
            else:
                del c2["outputs"][j]
    elif kind == "out_append" or kind in ("output", "outmeta", "outec", "out_del_edit", "out_ins_edit"):
        c1["outputs"].append(routput(r)); c2["outputs"].append(routput(r))
    elif kind == "attach":
        a1 = c1.setdefault("attachments", {}); a2 = c2.setdefault("attachments", {})
        names = sorted(set(a1) | set(a2)) or ["img0.png"]
        name = r.choice(names)
        def ch(a):
            op = r.choice(["set", "set", "del", "addmime"])
            if op == "set" or name not in a:
                a[name] = {"image/png": r.choice(["HHHH", "IIII", "JJJJ"])}
            elif op == "del":
                del a[name]
            else:
                a[name][r.choice(["image/jpeg", "image/gif"])] = r.choice(["KKKK", "LLLL"])
        ch(a1); ch(a2)
        if not a1 and r.random() < 0.5: del c1["attachments"]
    elif kind == "attach_add":
        name = r.choice(["new.png", "LOCAL_new.png", "1"])
        c1.setdefault("attachments", {})[name] = {"image/png": "MMMM"}
        c2.setdefault("attachments", {})[name] = {"image/png": r.choice(["MMMM", "NNNN"])}
    elif kind == "del_edit":
        del n1.cells[k]
        edit_cell(r, c2)
    elif kind == "ins_edit":
        n1.cells.insert(k, rcell(r, with_id))
        edit_cell(r, c2)
    elif kind == "ins_del":
        n1.cells.insert(k, rcell(r, with_id))
        del n2.cells[k]

M = ["inline", "use-base", "use-local", "use-remote"]
I = [None] + M
O = [None] + M + ["remove", "clear-all"]

def combos():
    out = [(m, i, o, t) for m in M for i in I for o in O for t in (True, False)]
    out.append(("mergetool", None, None, True))
    out.append(("mergetool", None, None, False))
    pass
    return out

def set_tool(tool):
    real = __import__("shutil").which
    if tool == "git":
        pp.which = real
    elif tool == "diff3":
        pp.which = lambda n: None if n == "git" else real(n)
    else:
        pp.which = lambda n: None

def main():
    seed0 = int(sys.argv[1]) if len(sys.argv) > 1 else 0
    n = int(sys.argv[2]) if len(sys.argv) > 2 else 200
    ncomb = int(sys.argv[3]) if len(sys.argv) > 3 else 12
    allc = combos()
    fails = collections.Counter()
    examples = {}
    total = 0
    for seed in range(seed0, seed0 + n):
        r = random.Random(seed)
        with_id = r.random() < 0.5
        b = rnotebook(r, with_id)
        focus = r.randrange(len(b.cells)) if b.cells and r.random() < 0.8 else None
        mode = r.random()
        if mode < 0.45:
            l = copy.deepcopy(b); rr = copy.deepcopy(b)
            targeted(r, b, l, rr, with_id)
            if r.random() < 0.4:
                l = edit_notebook(r, l, with_id, None)
            if r.random() < 0.4:
                rr = edit_notebook(r, rr, with_id, None)
        else:
            l = edit_notebook(r, b, with_id, focus)
            rr = edit_notebook(r, b, with_id, focus)
        if r.random() < 0.35:
            shared_edit(r, b, l, rr, with_id)
        for nb in (b, l, rr):
            try:
                nbformat.validate(nb)
            except Exception as e:
                print("INVALID generated nb seed", seed, str(e)[:200]); break
        else:
            for (m, i, o, t) in r.sample(allc, ncomb):
                tool = r.choice(["git", "diff3", "none", "none"])
                set_tool(tool)
                total += 1
                try:
                    merged, dec = merge_notebooks(copy.deepcopy(b), copy.deepcopy(l), copy.deepcopy(rr), Args(m, i, o, t))
                except Exception as e:
                    tb = traceback.extract_tb(sys.exc_info()[2])[-1]
                    key = "%s:%s %s:%s" % (tb.filename.split("/")[-1], tb.lineno, type(e).__name__, str(e)[:60])
                    fails[key] += 1
                    examples.setdefault(key, (seed, m, i, o, t, tool))
    print("total", total, "fails", sum(fails.values()))
    for k, v in fails.most_common():
        print(v, k, examples[k])

if __name__ == "__main__":
    main()
