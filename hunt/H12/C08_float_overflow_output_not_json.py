"""C08: exit status 0 but the file at --out is not well-formed JSON.

local adds a metadata entry whose JSON number overflows a double ("1e999":
perfectly well-formed JSON, and notebook metadata is free-form).  Python reads
it as inf and nbformat/json writes it back as the bare word Infinity, which is
not JSON.
"""
import json, os, subprocess, sys, tempfile
import nbformat

PY = sys.executable
td = tempfile.mkdtemp()
TEMPLATE = '{"cells": [], "metadata": {"a": 1%s}, "nbformat": 4, "nbformat_minor": 4}'
files = {}
for name, extra in (("b", ""), ("l", ', "scale": 1e999'), ("r", "")):
    files[name] = os.path.join(td, name + ".ipynb")
    text = TEMPLATE % extra
    with open(files[name], "w") as f:
        f.write(text)
    assert "Infinity" not in text and "NaN" not in text      # strict JSON input
    nbformat.validate(nbformat.read(files[name], as_version=4))


def strict_load(path):
    def bad(c):
        raise ValueError("non-JSON constant %s" % c)
    with open(path, encoding="utf8") as f:
        return json.load(f, parse_constant=bad)


problems = []
out = os.path.join(td, "out.ipynb")
p = subprocess.run([PY, "-m", "nbdime.nbmergeapp", files["b"], files["l"], files["r"], "--out", out],
                   capture_output=True)
try:
    strict_load(out)
except Exception as e:
    line = [ln for ln in open(out).read().splitlines() if "scale" in ln]
    problems.append("nbmerge --out: exit %d but output is not well-formed JSON (%s): %r" % (p.returncode, e, line))

a = os.path.join(td, "A.ipynb")
with open(a, "w") as f:
    f.write(open(files["l"]).read())
p = subprocess.run([PY, "-m", "nbdime.vcs.git.mergedriver", "merge", files["b"], a, files["r"], "7", "x.ipynb"],
                   capture_output=True)
try:
    strict_load(a)
except Exception as e:
    problems.append("git merge driver: exit %d but %%A is not well-formed JSON (%s)" % (p.returncode, e))

if problems:
    print("\n".join(problems))
    sys.exit(1)
print("ok")
