"""C05 (identity / one-sided adoption): a valid notebook whose output carries a scalar
application/json payload cannot be merged at all -- not even with itself.

nbformat's schema allows any JSON value for application/json ("can be any type"),
but nbdime.diffing.notebooks.add_mime_diff sends every non-string value of a
'split' mime type to the generic diff(), which raises for scalars (even equal ones).
"""
import sys, copy, logging
logging.disable(logging.CRITICAL)
import nbformat
from nbdime.merging.notebooks import merge_notebooks

def nb(payload):
    return nbformat.from_dict({
        "nbformat": 4, "nbformat_minor": 4, "metadata": {},
        "cells": [{"cell_type": "code", "metadata": {}, "source": "x", "execution_count": 1,
                   "outputs": [{"output_type": "display_data", "metadata": {},
                                "data": {"application/json": payload, "text/plain": "1"}}]}]})

base, x = nb(1), nb(2)
for n in (base, x):
    nbformat.validate(n)

bad = []
for name, (b, l, r, expect) in {
        "identity": (base, base, base, base),
        "one-sided local": (base, x, base, x),
        "one-sided remote": (base, base, x, x),
        "agreement": (base, x, x, x)}.items():
    try:
        merged, decisions = merge_notebooks(copy.deepcopy(b), copy.deepcopy(l), copy.deepcopy(r))
        if any(d.conflict for d in decisions):
            bad.append("%s: conflict reported" % name)
        elif merged != expect:
            bad.append("%s: wrong result" % name)
    except Exception as e:
        bad.append("%s: merge raised %s: %s" % (name, type(e).__name__, e))
if bad:
    print("C05 violated for a notebook with a scalar application/json output:")
    for m in bad: print("  ", m)
    sys.exit(1)
print("ok")
