"""C10 (use-* given separately as input/output strategy): conflicting sources inside two
*similar inserted* cells are not resolved to the requested side.

base   = [title]
local  = [title, code "import numpy as np\nx = 1\n"]
remote = [title, code "import numpy as np\nx = 2\n"]

With --input-strategy use-remote --output-strategy use-remote every source conflict should
be settled with remote's text (as it is when both sides edit an existing cell).  For cells
that both sides inserted, merging/strategies.py:resolve_strategy_inline_recurse merges
the two sources itself with merge_render() and never consults the /cells/*/source
strategy: the result has <<<<<<< / ======= / >>>>>>> marker lines that are in no input,
and the merge is reported as conflicted.
"""
import sys, copy, logging
logging.disable(logging.CRITICAL)
import nbformat
from nbdime.merging.notebooks import merge_notebooks
from nbdime.nbmergeapp import _build_arg_parser

def C(src): return {"cell_type": "code", "metadata": {}, "source": src, "execution_count": None, "outputs": []}
def M(src): return {"cell_type": "markdown", "metadata": {}, "source": src}
def nb(cells): return nbformat.from_dict({"nbformat": 4, "nbformat_minor": 4, "metadata": {}, "cells": cells})

base = nb([M("title\n")])
local = nb([M("title\n"), C("import numpy as np\nx = 1\n")])
remote = nb([M("title\n"), C("import numpy as np\nx = 2\n")])
for n in (base, local, remote):
    nbformat.validate(n)
allowed = set(ln for n in (base, local, remote) for c in n.cells for ln in c.source.splitlines() if ln.strip())

bad = []
# control: the same two edits made to an EXISTING cell are resolved as requested
b2 = nb([M("title\n"), C("import numpy as np\nx = 0\n")])
for side, want in (("use-local", local), ("use-remote", remote), ("use-base", None)):
    args = _build_arg_parser().parse_args(["--input-strategy", side, "--output-strategy", side, "b", "l", "r"])
    m2, d2 = merge_notebooks(copy.deepcopy(b2), copy.deepcopy(local), copy.deepcopy(remote), args)
    assert not any(d.conflict for d in d2), "control failed"
    merged, decisions = merge_notebooks(copy.deepcopy(base), copy.deepcopy(local), copy.deepcopy(remote), args)
    foreign = [ln for c in merged.cells for ln in c.source.splitlines()
               if ln.strip() and ln not in allowed and not ln.startswith('<span style="color:red">')]
    nconf = sum(d.conflict for d in decisions)
    if foreign or nconf:
        bad.append("--input-strategy %s: %d unresolved conflict(s); merged sources %r contain foreign lines %r"
                   % (side, nconf, [c.source for c in merged.cells], foreign))
if bad:
    print("C10 violated (similar cells inserted on both sides):")
    for m in bad: print("  ", m)
    sys.exit(1)
print("ok")
