"""C09 (applying the decisions to base gives the merge) / C10 (no foreign source line):
a conflict-free merge corrupts a source string.

base   source: "abcdefgh\n"
local  source: "new\nXabcdefgh\n"   (prefixes the line with X and inserts a line before it)
remote source: "Xabcdefgh\n"        (prefixes the line with X)

Remote's change is contained in local's, so every sane merge is local's text, and the
decisions nbdime returns say exactly that: {either: patch line 0: insert "X" at char 0}
and {local: insert ["new\n"] at line 0}.  Applying them with an independent
implementation of the documented diff format gives "new\nXabcdefgh\n"; nbdime's own
apply_decisions returns "Xnew\nabcdefgh\n" -- without any conflict, for every strategy
except 'inline' (and likewise for the generic {"s": ...} document).
"""
import sys, copy, json, logging
logging.disable(logging.CRITICAL)
import nbformat
from nbdime.merging.notebooks import merge_notebooks
from nbdime.merging.generic import decide_merge
from nbdime.merging.decisions import apply_decisions
from nbdime.nbmergeapp import _build_arg_parser

# ---- tiny independent implementation of the diff format -------------------------------
def opatch(obj, diff):
    if isinstance(obj, dict):
        new = dict(obj)
        for e in diff:
            if e["op"] in ("add", "replace"): new[e["key"]] = e["value"]
            elif e["op"] == "remove": del new[e["key"]]
            elif e["op"] == "patch": new[e["key"]] = opatch(obj[e["key"]], e["diff"])
        return new
    if isinstance(obj, str):   # line based; patches of a line are character based
        lines = obj.splitlines(True)
        return "".join(olist(lines, diff, lambda line, d: "".join(olist(list(line), d, None))))
    return olist(obj, diff, opatch)

def olist(seq, diff, sub):
    out, take = [], 0
    # entries ordered by key; at one key an insertion comes before patch/removal of that item
    for e in sorted(diff, key=lambda e: (e["key"], e["op"] != "addrange")):
        out.extend(seq[take:e["key"]]); take = max(take, e["key"])
        if e["op"] == "addrange": out.extend(e["valuelist"])
        elif e["op"] == "removerange": take = e["key"] + e["length"]
        elif e["op"] == "patch": out.append(sub(seq[e["key"]], e["diff"])); take = e["key"] + 1
    out.extend(seq[take:])
    return out

def wrap(path, diff):
    for k in reversed(path):
        diff = [{"op": "patch", "key": k, "diff": diff}]
    return diff

def combine(diff):
    out, seen = [], {}
    for e in diff:
        if e["op"] == "patch":
            if e["key"] in seen:
                seen[e["key"]]["diff"] = combine(seen[e["key"]]["diff"] + e["diff"]); continue
            e = {"op": "patch", "key": e["key"], "diff": combine(e["diff"])}; seen[e["key"]] = e
        out.append(e)
    return out

def apply_independently(base, decisions):
    whole = []
    for d in json.loads(json.dumps(decisions)):
        chosen = {"local": d["local_diff"], "either": d["local_diff"], "remote": d["remote_diff"],
                  "base": []}[d["action"]]
        whole += wrap(d["common_path"], chosen or [])
    return opatch(base, combine(whole))
# ----------------------------------------------------------------------------------------

def nb(src):
    return nbformat.from_dict({"nbformat": 4, "nbformat_minor": 4, "metadata": {}, "cells": [
        {"cell_type": "code", "metadata": {}, "source": src, "execution_count": None, "outputs": []}]})

B, L, R = "abcdefgh\n", "new\nXabcdefgh\n", "Xabcdefgh\n"
base, local, remote = nb(B), nb(L), nb(R)
for n in (base, local, remote):
    nbformat.validate(n)

bad = []
for strategy in ("mergetool", "use-base", "use-local", "use-remote"):
    args = _build_arg_parser().parse_args(["b", "l", "r"])
    args.merge_strategy = strategy          # 'mergetool' is what the web tool uses
    merged, decisions = merge_notebooks(copy.deepcopy(base), copy.deepcopy(local), copy.deepcopy(remote), args)
    got = merged.cells[0].source
    conflicts = [d for d in decisions if d.conflict]
    indep = apply_independently(json.loads(json.dumps(base)), decisions)["cells"][0]["source"]
    if indep != got:
        bad.append("%s: decisions applied independently give %r, nbdime's merged source is %r (conflicts: %d)"
                   % (strategy, indep, got, len(conflicts)))
    foreign = [ln for ln in got.splitlines() if ln.strip() and ln not in (B + L + R).splitlines()]
    if foreign:
        bad.append("%s: merged source has line(s) %r found in none of the inputs" % (strategy, foreign))

# generic JSON variant
gb, gl, gr = {"s": B}, {"s": L}, {"s": R}
gd = decide_merge(gb, gl, gr)
gm = apply_decisions(gb, gd)
if not any(d.conflict for d in gd) and gm != gl:
    bad.append("generic: conflict-free merge of %r / %r / %r is %r" % (gb, gl, gr, dict(gm)))

if bad:
    print("C09/C10 violated (insert a line before a line that both sides patch):")
    for m in bad: print("  ", m)
    sys.exit(1)
print("ok")
