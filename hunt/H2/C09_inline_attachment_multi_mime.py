"""C09 (decisions losslessly describe the merge; choosing local reproduces local), CLI
default strategy 'inline': when both sides change TWO MIME entries of one attachment, one
of the two conflicts is silently dropped from the decision list.

base   attachment a.png = {image/png: P0, image/jpeg: P0}
local  attachment a.png = {image/png: P1, image/jpeg: P1}
remote attachment a.png = {image/png: P2, image/jpeg: P2}

merging/strategies.py:resolve_strategy_inline_attachments indexes the conflicting diffs
with {d.key: d for d in ...} keyed by attachment name; the two patch entries for a.png
(one per MIME type) collide and only one survives.  Consequences:
 * the single remaining decision has local_diff = only one MIME change, so choosing
   'local' (or 'remote') for every decision does NOT give the local (remote) notebook;
 * the merged notebook's LOCAL_a.png / REMOTE_a.png copies are neither side's attachment
   (one MIME entry still holds the base payload).
With strategy 'mergetool' both conflicts are present and the property holds.
"""
import sys, copy, json, base64, logging
logging.disable(logging.CRITICAL)
import nbformat
from nbdime.merging.notebooks import merge_notebooks
from nbdime.nbmergeapp import _build_arg_parser

P = [base64.b64encode(bytes([i]) * 20).decode() + "\n" for i in range(3)]
def nb(p):
    return nbformat.from_dict({"nbformat": 4, "nbformat_minor": 4, "metadata": {}, "cells": [
        {"cell_type": "markdown", "metadata": {}, "source": "![x](attachment:a.png)",
         "attachments": {"a.png": {"image/png": p, "image/jpeg": p}}}]})
base, local, remote = nb(P[0]), nb(P[1]), nb(P[2])
for n in (base, local, remote):
    nbformat.validate(n)

def dict_patch(obj, diff):          # independent: only dict ops are needed here
    new = dict(obj)
    for e in diff:
        if e["op"] in ("add", "replace"): new[e["key"]] = e["value"]
        elif e["op"] == "remove": del new[e["key"]]
        elif e["op"] == "patch": new[e["key"]] = dict_patch(obj[e["key"]], e["diff"])
    return new

def choose(decisions, side):
    doc = json.loads(json.dumps(base))
    for d in json.loads(json.dumps(decisions)):
        diff = d[side + "_diff"] or []
        for k in reversed(d["common_path"]):
            diff = [{"op": "patch", "key": k, "diff": diff}]
        # cells is a list: address the single cell directly
        if diff:
            assert diff[0]["key"] == "cells" and diff[0]["diff"][0]["key"] == 0
            doc["cells"][0] = dict_patch(doc["cells"][0], diff[0]["diff"][0]["diff"])
    return doc["cells"][0]["attachments"]

bad = []
for strategy in ("inline", "mergetool"):
    args = _build_arg_parser().parse_args(["b", "l", "r"]); args.merge_strategy = strategy
    merged, decisions = merge_notebooks(copy.deepcopy(base), copy.deepcopy(local), copy.deepcopy(remote), args)
    for side, nbside in (("local", local), ("remote", remote)):
        got = choose(decisions, side)
        want = json.loads(json.dumps(nbside.cells[0].attachments))
        if got != want:
            bad.append("strategy %s: choosing %s for all %d decision(s) gives attachments %r, the %s notebook has %r"
                       % (strategy, side, len(decisions), got, side, want))
    att = merged.cells[0].attachments
    if strategy == "inline":
        for name, nbside in (("LOCAL_a.png", local), ("REMOTE_a.png", remote)):
            if name in att and dict(att[name]) != dict(nbside.cells[0].attachments["a.png"]):
                bad.append("strategy inline: merged attachment %s = %r is not that side's a.png %r"
                           % (name, dict(att[name]), dict(nbside.cells[0].attachments["a.png"])))
if bad:
    print("C09 violated (two conflicting MIME entries in one attachment):")
    for m in bad: print("  ", m)
    sys.exit(1)
print("ok")
