"""C05 (identity, generic JSON): merging an empty list / empty string with itself raises.

decide_merge([], [], []) and decide_merge("", "", "") must be the identity with no
conflict; instead make_merge_chunks asserts 'no merge chunks produced'.
"""
import sys, logging
logging.disable(logging.CRITICAL)
from nbdime.merging.generic import decide_merge
from nbdime.merging.decisions import apply_decisions

bad = []
for doc in ([], ""):
    try:
        decisions = decide_merge(doc, doc, doc)
        if any(d.conflict for d in decisions):
            bad.append("%r: identity merge reports a conflict" % (doc,))
        merged = apply_decisions(doc, decisions)
        if merged != doc:
            bad.append("%r: identity merge gives %r" % (doc, merged))
    except Exception as e:
        bad.append("identity merge of %r with itself raised %s: %s" % (doc, type(e).__name__, e))
# control: non-empty documents work
assert apply_decisions([1], decide_merge([1], [1], [1])) == [1]
if bad:
    print("C05 violated (identity on generic JSON):")
    for b in bad: print("  ", b)
    sys.exit(1)
print("ok")
