"""C05 (one-sided adoption) violated by a *sequence of calls*: the ignore flags of one
nbmerge call leak into later calls in the same process.

nbdime.nbmergeapp.main(['-s', ...]) (process sources only) reconfigures the module-global
nbdime.diffing.notebooks.notebook_differs via args.process_diff_flags().  A later call
without any flag does not reset it (process_diff_flags only acts if a flag is given), so
merge(base, X, base) silently drops X's output / execution_count changes.
"""
import sys, os, json, tempfile, logging, io, contextlib
logging.disable(logging.CRITICAL)
import nbformat
from nbdime import nbmergeapp

def nb(text, ec):
    return {"nbformat": 4, "nbformat_minor": 4, "metadata": {},
            "cells": [{"cell_type": "code", "metadata": {}, "source": "x\n", "execution_count": ec,
                       "outputs": [{"output_type": "stream", "name": "stdout", "text": text}]}]}

base, x = nb("1\n", 1), nb("2\n", 2)
for n in (base, x):
    nbformat.validate(nbformat.from_dict(n))

d = tempfile.mkdtemp()
pb, px, out = (os.path.join(d, n) for n in ("b.ipynb", "x.ipynb", "m.ipynb"))
json.dump(base, open(pb, "w")); json.dump(x, open(px, "w"))

def merge(*flags):
    with contextlib.redirect_stdout(io.StringIO()), contextlib.redirect_stderr(io.StringIO()):
        rc = nbmergeapp.main(list(flags) + [pb, px, pb, "--out", out])
    m = nbformat.read(out, as_version=4)
    return rc, m.cells[0].outputs[0].text, m.cells[0].execution_count

first = merge()                 # plain merge: adopts X
merge("-s")                     # an unrelated call that asks for sources only
second = merge()                # the same plain merge again
if first != (0, "2\n", 2):
    print("unexpected: plain one-sided merge does not adopt X:", first); sys.exit(1)
if second != first:
    print("C05 violated: merge(base, X, base) without flags gave", second,
          "after an earlier call with -s; the same call gave", first, "before it.")
    print("The one-sided change of X (output text '2\\n', execution_count 2) is not adopted.")
    sys.exit(1)
print("ok")
