"""C06: changes to different cells must merge cleanly, but with duplicate (e.g. empty)
cells a deletion and a far-away insertion conflict.

base   = [B, E, E]      (E = empty code cell, no cell ids / nbformat 4.4)
local  = [B, E]         deletes the LAST cell
remote = [B, N, E, E]   inserts N between B and the first E (not adjacent to the last cell)

Expected: no conflict, merged == [B, N, E].  nbdime's diff attributes the deletion to the
FIRST of the identical cells, so the merge sees 'insert before a removed cell' (chunk
type A/R in merging/generic.py:_merge_lists) and flags a conflict; with
--merge-strategy use-base BOTH changes are dropped.
"""
import sys, copy, logging
logging.disable(logging.CRITICAL)
import nbformat
from nbdime.merging.notebooks import merge_notebooks
from nbdime.nbmergeapp import _build_arg_parser

def E(): return {"cell_type": "code", "metadata": {}, "source": "", "execution_count": None, "outputs": []}
def M(s): return {"cell_type": "markdown", "metadata": {}, "source": s}
def nb(cells): return nbformat.from_dict({"nbformat": 4, "nbformat_minor": 4, "metadata": {}, "cells": cells})

base = nb([M("title\n"), E(), E()])
local = nb([M("title\n"), E()])
remote = nb([M("title\n"), M("new\n"), E(), E()])
expected = nb([M("title\n"), M("new\n"), E()])
for n in (base, local, remote, expected):
    nbformat.validate(n)

bad = []
for strategy in ("inline", "use-base", "use-local", "use-remote"):
    args = _build_arg_parser().parse_args(["--merge-strategy", strategy, "b", "l", "r"])
    merged, decisions = merge_notebooks(copy.deepcopy(base), copy.deepcopy(local), copy.deepcopy(remote), args)
    conflicts = [d for d in decisions if d.conflict]
    if conflicts:
        bad.append("%s: %d conflict(s) reported, e.g. action=%s on %r" % (
            strategy, len(conflicts), conflicts[0].action, conflicts[0].common_path))
    if merged != expected:
        bad.append("%s: merged cells %r != expected %r" % (
            strategy, [c.source for c in merged.cells], [c.source for c in expected.cells]))
if bad:
    print("C06 violated (delete last duplicate cell vs. insert elsewhere):")
    for m in bad: print("  ", m)
    sys.exit(1)
print("ok")
