"""C10 (result has no source line absent from all inputs) -- two non-conflicting edits are
glued into one new line.

base   source: "a\nb\n"
local  source: "a\nb\nc\n"   appends a line
remote source: "a\nb"        drops the final newline (editors do this all the time)

The line based merge treats the newline as part of line "b\n": remote patches that line
(removes "\n"), local inserts "c\n" after it; both are applied without conflict, giving
"a\nbc\n" under use-base, use-local, use-remote and mergetool.  "bc" exists nowhere.
"""
import sys, copy, logging
logging.disable(logging.CRITICAL)
import nbformat
from nbdime.merging.notebooks import merge_notebooks
from nbdime.nbmergeapp import _build_arg_parser

def nb(src):
    return nbformat.from_dict({"nbformat": 4, "nbformat_minor": 4, "metadata": {}, "cells": [
        {"cell_type": "code", "metadata": {}, "source": src, "execution_count": None, "outputs": []}]})

srcs = ("a\nb\n", "a\nb\nc\n", "a\nb")
base, local, remote = map(nb, srcs)
for n in (base, local, remote):
    nbformat.validate(n)
allowed = set(ln for s in srcs for ln in s.splitlines() if ln.strip())

bad = []
for strategy in ("use-base", "use-local", "use-remote"):
    for separately in (False, True):
        argv = (["--input-strategy", strategy, "--output-strategy", strategy] if separately
                else ["--merge-strategy", strategy])
        args = _build_arg_parser().parse_args(argv + ["b", "l", "r"])
        merged, decisions = merge_notebooks(copy.deepcopy(base), copy.deepcopy(local), copy.deepcopy(remote), args)
        got = merged.cells[0].source
        if separately and got.startswith("<<<<<<<"):
            continue
        foreign = [ln for ln in got.splitlines() if ln.strip() and ln not in allowed]
        if foreign:
            bad.append("%s %s: merged source %r contains line(s) %r present in no input (conflicts reported: %d)"
                       % (" ".join(argv), "", got, foreign, sum(d.conflict for d in decisions)))
if bad:
    print("C10 violated:")
    for m in bad: print("  ", m)
    sys.exit(1)
print("ok")
