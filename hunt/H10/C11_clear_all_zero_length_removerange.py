"""C11/C09: --output-strategy clear-all on a cell whose base outputs list is empty
(both sides ran a never-run cell) yields a custom_diff [removerange(0, 0)]:
a list operation that removes nothing (zero length), which no differ of nbdime
ever emits (SequenceDiffBuilder.removerange drops it)."""
import sys, json, copy, logging, warnings
warnings.simplefilter('ignore')
import nbformat
from nbformat.v4 import new_notebook, new_code_cell, new_output

logging.disable(logging.CRITICAL)
from nbdime.merging.notebooks import merge_notebooks


class Args:
    merge_strategy = "inline"; input_strategy = None; output_strategy = "clear-all"
    ignore_transients = True; log_level = "INFO"


def nb(outputs):
    c = new_code_cell(source="x", outputs=outputs)
    c.pop("id", None)
    n = new_notebook(); n.nbformat_minor = 4; n.cells = [c]
    nbformat.validate(n)
    return n


base = nb([])
local = nb([new_output("stream", name="stdout", text="local\n")])
remote = nb([new_output("stream", name="stdout", text="remote\n")])

merged, decisions = merge_notebooks(base, local, remote, Args())
decisions = json.loads(json.dumps(decisions))

bad = []


def walk(diff, where):
    for e in diff or []:
        if e["op"] == "removerange" and e["length"] <= 0:
            bad.append("%s: removerange key=%d length=%d" % (where, e["key"], e["length"]))
        if e["op"] == "addrange" and len(e["valuelist"]) == 0:
            bad.append("%s: empty addrange" % where)
        if e["op"] == "patch":
            if not e["diff"]:
                bad.append("%s: empty patch" % where)
            walk(e["diff"], where + "/%s" % e["key"])


for i, d in enumerate(decisions):
    for f in ("local_diff", "remote_diff", "custom_diff"):
        walk(d.get(f), "decision %d %s at /%s" % (i, f, "/".join(map(str, d["common_path"]))))

if bad:
    print("FAIL: empty list operation in a merge decision (base outputs = []):")
    for b in bad:
        print("  ", b)
    print("   decision:", json.dumps(decisions[0])[:300])
    sys.exit(1)
print("ok")
