"""C11 (diffs embedded in decisions): when both sides fill an empty outputs list
with a common first output followed by different ones, the output resolvers
(inline / remove) bundle the agreed insertion and the conflicting insertion of
index 0 into ONE decision whose local_diff and remote_diff each hold TWO
addrange entries on the same index: the split insertions are concatenated by
collect_diffs/combine_patches and never joined again. No differ of nbdime
emits two insertions at one position; the diff base->local is a single
addrange(0, [A, B])."""
import sys, json, logging, warnings
warnings.simplefilter("ignore")
import nbformat
from nbformat.v4 import new_notebook, new_code_cell, new_output

logging.disable(logging.CRITICAL)
from nbdime.merging.notebooks import merge_notebooks
from nbdime import diff_notebooks


class Args:
    merge_strategy = "inline"; input_strategy = None; output_strategy = None
    ignore_transients = True; log_level = "INFO"


def nb(outputs):
    c = new_code_cell(source="x", outputs=outputs)
    c.pop("id", None)
    n = new_notebook(); n.nbformat_minor = 4; n.cells = [c]
    nbformat.validate(n)
    return n


A = lambda: new_output("stream", name="stdout", text="same on both sides\n")
base = nb([])
local = nb([A(), new_output("stream", name="stderr", text="local only\n")])
remote = nb([A(), new_output("error", ename="E", evalue="remote only", traceback=[])])

bad = []
for ostrat in (None, "remove"):
    args = Args(); args.output_strategy = ostrat
    merged, decisions = merge_notebooks(base, local, remote, args)
    decisions = json.loads(json.dumps(decisions))
    for i, d in enumerate(decisions):
        for f in ("local_diff", "remote_diff", "custom_diff"):
            seen = set()
            for e in d.get(f) or []:
                if e["op"] == "addrange":
                    if e["key"] in seen:
                        bad.append("output strategy %s: decision %d at /%s: %s has two addrange entries on index %d"
                                   % (ostrat or "inline", i, "/".join(map(str, d["common_path"])), f, e["key"]))
                    seen.add(e["key"])

ref = diff_notebooks(base, local)
if bad:
    print("FAIL: a diff embedded in a merge decision inserts twice at one list position")
    for b in bad:
        print("  ", b)
    print("   (the differ itself gives one addrange: %s ops at /cells/0/outputs)"
          % len(ref[0]["diff"][0]["diff"][0]["diff"]))
    sys.exit(1)
print("ok")
