"""C11: with the output strategy `remove`, two branches that each append two outputs to a cell -- the first one equal, the second one
different ([o1] -> [o1, same, X] vs [o1, same, Y]) -- give a decision whose custom_diff is [removerange(1, 1)] for a base list of
length 1: a list operation out of bounds (patch_list tolerates it, so nothing fails).  resolve_strategy_remove_outputs only recognised
"one addrange per side" as "nothing of base to remove here".
Run: PYTHONPATH=<tree> python C11_remove_strategy_out_of_bounds_removal.py   (exit 1 = defect present)
"""
import sys, logging
logging.disable(logging.CRITICAL)
from nbformat import v4
from nbdime.merging.notebooks import decide_notebook_merge


class Args:
    merge_strategy = 'inline'; input_strategy = None; output_strategy = 'remove'; ignore_transients = True; log_level = 'INFO'


def out(t):
    return v4.new_output('stream', name='stdout', text=t)


def nb(outs):
    n = v4.new_notebook(); n.nbformat_minor = 4
    c = v4.new_code_cell('x'); c.pop('id', None); c.outputs = outs; n.cells = [c]
    return n


b = nb([out('o1\n')]); l = nb([out('o1\n'), out('same\n'), out('X\n')]); r = nb([out('o1\n'), out('same\n'), out('Y\n')])
bad = []
for d in decide_notebook_merge(b, l, r, Args()):
    if d.common_path == ('cells', 0, 'outputs'):
        for e in d.get('custom_diff') or []:
            if e.op == 'removerange' and e.key + e.length > len(b.cells[0].outputs):
                bad.append('custom_diff %r removes items %d..%d of a list of %d' % (dict(e), e.key, e.key + e.length - 1, len(b.cells[0].outputs)))
if bad:
    print('C11 VIOLATED:', *bad, sep='\n  ')
    sys.exit(1)
print('ok')
