"""C04 (and C09): a cell re-run on both sides -- the execution_count of one execute_result output differs on both sides (a conflict the default
strategy table resolves by clearing the count) and another output of the same cell conflicts for real.  The default (inline) merge, and the
`remove` output strategy, return a notebook in which the first output is {} : not a valid nbformat output.  The output-list resolvers move every
decision up to the outputs list (push_patch_decision) and keep the ones they do not resolve; the resolved `clear` decision then clears ITEM 0 of
the list instead of key execution_count inside it.
Run: PYTHONPATH=<tree> python C04_cleared_output_count_becomes_empty_output.py   (exit 1 = defect present)
"""
import sys, logging
logging.disable(logging.CRITICAL)
import nbformat
from nbformat import v4
from nbdime.merging.notebooks import merge_notebooks


def args(output_strategy):
    class A:
        merge_strategy = 'inline'; input_strategy = None; ignore_transients = True; log_level = 'INFO'
    A.output_strategy = output_strategy
    return A()


def er(ec, txt):
    return v4.new_output('execute_result', data={'text/plain': txt}, execution_count=ec)


def nb(outs):
    n = v4.new_notebook(); n.nbformat_minor = 4
    c = v4.new_code_cell('x', execution_count=1); c.pop('id', None); c.outputs = outs; n.cells = [c]
    return n


bad = []
for strat in (None, 'inline', 'remove'):
    b, l, r = nb([er(1, 'a'), er(1, 'b')]), nb([er(2, 'a'), er(1, 'B1')]), nb([er(3, 'a'), er(1, 'B2')])
    m, _ = merge_notebooks(b, l, r, args(strat))
    try:
        nbformat.validate(m)
    except Exception as e:
        bad.append('output strategy %s: merged outputs %r: %s' % (strat, [dict(o) if not o else o.get('output_type') for o in m.cells[0].outputs][:3], str(e).splitlines()[0]))
if bad:
    print('C04 VIOLATED (merged notebook invalid):', *bad, sep='\n  ')
    sys.exit(1)
print('ok')
