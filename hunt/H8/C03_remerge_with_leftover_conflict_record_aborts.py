"""C03: a valid base notebook that still carries the traces of an EARLIER nbdime merge -- a `nbdime-conflicts` record in (cell or notebook)
metadata, or LOCAL_<name>/REMOTE_<name> attachments -- aborts the merge when one side removed or edited that trace while a new conflict of
the same kind arises: the resolver registers `replace <trace>` and keeps the side's own `remove/patch <trace>` decision, and patch_dict
asserts ("cannot replace deleted key" / "multiple diff entries target same key").
Run: PYTHONPATH=<tree> python C03_remerge_with_leftover_conflict_record_aborts.py   (exit 1 = defect present)
"""
import sys, logging
logging.disable(logging.CRITICAL)
from nbformat import v4
from nbdime.merging.notebooks import merge_notebooks


class Args:
    merge_strategy = 'inline'; input_strategy = None; output_strategy = None; ignore_transients = True; log_level = 'INFO'


def nb(md=None, att=None):
    n = v4.new_notebook(); n.nbformat_minor = 4
    n.metadata.update(md or {})
    c = v4.new_markdown_cell('![x](attachment:x.png)'); c.pop('id', None)
    if att is not None:
        c['attachments'] = att
    n.cells = [c]
    return n


old = {'local_diff': [], 'remote_diff': []}
png = lambda s: {'image/png': s}
cases = {
    'metadata: local removed the old record, both change a': (nb({'nbdime-conflicts': old, 'a': 1}), nb({'a': 2}), nb({'nbdime-conflicts': old, 'a': 3})),
    'metadata: local edited the old record, both change a': (nb({'nbdime-conflicts': old, 'a': 1}), nb({'nbdime-conflicts': {'x': 1}, 'a': 2}), nb({'nbdime-conflicts': old, 'a': 3})),
    'attachments: local removed the old LOCAL_ copy, both change x.png': (
        nb(att={'x.png': png('AAAA'), 'LOCAL_x.png': png('BBBB')}), nb(att={'x.png': png('CCCC')}), nb(att={'x.png': png('DDDD'), 'LOCAL_x.png': png('BBBB')})),
    'attachments: remote edited the old REMOTE_ copy, both change x.png': (
        nb(att={'x.png': png('AAAA'), 'REMOTE_x.png': png('BBBB')}), nb(att={'x.png': png('CCCC'), 'REMOTE_x.png': png('BBBB')}), nb(att={'x.png': png('DDDD'), 'REMOTE_x.png': png('EEEE')})),
}
fails = []
for name, (b, l, r) in cases.items():
    try:
        merge_notebooks(b, l, r, Args())
    except Exception as e:
        fails.append('%s: %s: %s' % (name, type(e).__name__, e))
if fails:
    print('C03 VIOLATED (merge aborts):', *fails, sep='\n  ')
    sys.exit(1)
print('ok')
