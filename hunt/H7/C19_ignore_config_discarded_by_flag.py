"""C19: giving any ignorable flag silently discards the whole "Ignore" mapping
that came from the config files, although no flag for those paths was given.

Config: {"NbDiff": {"Ignore": {"/cells/*/metadata": ["tags"]}}}.  The two
notebooks differ in a cell's metadata.tags and in an output.
  nbdiff a b                   -> only the output change (config honoured)
  nbdiff --ignore-outputs a b  -> expected: empty diff (flag hides outputs,
                                  config hides tags); observed: tags change shown.
Cause: ConfigBackedParser.parse_known_args applies Ignore first, then
args.process_diff_flags() -> set_notebook_diff_targets() rewrites the differs
for all nine standard paths whenever any ignorable (flag OR config boolean) is
set ("This will blow away any options set via config").  The server extension
(nb_server_extension.py) applies them in the opposite order.

Run:  PYTHONPATH=<tree> python C19_ignore_config_discarded_by_flag.py
"""
import json, os, subprocess, sys, tempfile
import nbformat
from nbformat.v4 import new_notebook, new_code_cell, new_output

root = tempfile.mkdtemp()
user = os.path.join(root, 'user'); cwd = os.path.join(root, 'cwd'); bindir = os.path.join(root, 'bin')
for p in (user, cwd, bindir):
    os.makedirs(p)
def nb(tags, text):
    c = new_code_cell('x', execution_count=1, metadata={'tags': tags},
                      outputs=[new_output('stream', name='stdout', text=text)])
    c['id'] = 'cell-1'
    n = new_notebook(cells=[c])
    nbformat.validate(n)
    return n
nbformat.write(nb(['t1'], 'one\n'), os.path.join(cwd, 'a.ipynb'))
nbformat.write(nb(['t2'], 'two\n'), os.path.join(cwd, 'b.ipynb'))
with open(os.path.join(user, 'nbdime_config.json'), 'w') as f:
    json.dump({"NbDiff": {"Ignore": {"/cells/*/metadata": ["tags"]}}}, f)
launcher = os.path.join(bindir, 'nbdiff')
with open(launcher, 'w') as f:
    f.write("import sys\nfrom nbdime.nbdiffapp import main\nsys.exit(main())\n")
env = dict(os.environ, JUPYTER_CONFIG_DIR=user, JUPYTER_CONFIG_PATH=user)
def run(extra):
    out = os.path.join(cwd, 'diff.json')
    p = subprocess.run([sys.executable, launcher] + extra + ['a.ipynb', 'b.ipynb', '--out', out],
                       cwd=cwd, env=env, stdout=subprocess.PIPE, stderr=subprocess.PIPE, universal_newlines=True, timeout=25)
    assert p.returncode == 0, p.stderr
    return json.load(open(out))
def touched(diff, prefix=''):
    res = set()
    for e in diff:
        path = '%s/%s' % (prefix, e['key'])
        if e['op'] == 'patch':
            sub = touched(e['diff'], path)
            res |= sub or {path}
        else:
            res.add(path)
    return res
plain = touched(run([]))
assert not any('metadata' in p for p in plain) and any('outputs' in p for p in plain), plain   # config honoured without flags
flagged = touched(run(['--ignore-outputs']))
if flagged:
    print("C19 VIOLATED: Ignore {'/cells/*/metadata': ['tags']} from config is dropped once --ignore-outputs is given")
    print("  paths changed without flag      :", sorted(plain))
    print("  paths changed with the flag     :", sorted(flagged), "(expected none)")
    sys.exit(1)
print("ok")
sys.exit(0)
