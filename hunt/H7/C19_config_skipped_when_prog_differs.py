"""C19: the same command run as `nbdime diff` / `python -m nbdime diff` ignores
every config file, while `nbdiff` honours it.

ConfigBackedParser.parse_known_args (nbdime/args.py) derives the entry point
from parser.prog (= basename(sys.argv[0])) and silently swallows the ValueError
raised by build_config() for unknown names.  Through the documented `nbdime`
dispatcher prog is 'nbdime', so no section applies.  (For the same reason the
'server' entry point, only reachable as `nbdime server` or `python -m
nbdime.webapp.nbdimeserver`, can never see its "Server" section.)

Run:  PYTHONPATH=<tree> python C19_config_skipped_when_prog_differs.py
"""
import json, os, subprocess, sys, tempfile
import nbformat
from nbformat.v4 import new_notebook, new_code_cell

root = tempfile.mkdtemp()
user = os.path.join(root, 'user'); cwd = os.path.join(root, 'cwd'); bindir = os.path.join(root, 'bin')
for p in (user, cwd, bindir):
    os.makedirs(p)

def nb(ec):
    n = new_notebook(cells=[new_code_cell('x = 1', execution_count=ec)])
    n.cells[0]['id'] = 'cell-1'
    nbformat.validate(n)
    return n
nbformat.write(nb(1), os.path.join(cwd, 'a.ipynb'))
nbformat.write(nb(2), os.path.join(cwd, 'b.ipynb'))
# the example from docs/source/config.rst
with open(os.path.join(cwd, 'nbdime_config.json'), 'w') as f:
    json.dump({"NbDiff": {"details": False}}, f)
# stand-in for the `nbdiff` console script
launcher = os.path.join(bindir, 'nbdiff')
with open(launcher, 'w') as f:
    f.write("import sys\nfrom nbdime.nbdiffapp import main\nsys.exit(main())\n")

env = dict(os.environ, JUPYTER_CONFIG_DIR=user, JUPYTER_CONFIG_PATH=user)
def run(cmd):
    p = subprocess.run(cmd, cwd=cwd, env=env, stdout=subprocess.PIPE, stderr=subprocess.PIPE, universal_newlines=True, timeout=25)
    return p.returncode, p.stdout
common = ['--no-color', '--no-git', '--no-use-diff', 'a.ipynb', 'b.ipynb']
rc1, out1 = run([sys.executable, launcher] + common)
rc2, out2 = run([sys.executable, '-m', 'nbdime', 'diff'] + common)

shows1 = 'execution_count' in out1
shows2 = 'execution_count' in out2
if shows1:
    print("unexpected: plain nbdiff does not honour NbDiff.details=false either"); sys.exit(1)
if shows2:
    print("C19 VIOLATED: ./nbdime_config.json has NbDiff.details=false, no flags given")
    print("  `nbdiff a b`            -> execution_count change hidden (config applied)")
    print("  `python -m nbdime diff` -> execution_count change shown  (config silently ignored):")
    print(out2)
    sys.exit(1)
print("ok")
sys.exit(0)
