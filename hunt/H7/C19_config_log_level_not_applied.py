"""C19: a log_level that comes from a config file is stored in the parsed
arguments but never takes effect; only the --log-level flag does.

(The documented home of log_level, the "Global" section, is not read at all -
see C19_global_section_ignored.py - so this uses the entry point's own section,
which build_config() merges verbatim.)
Config {"NbDiff": {"log_level": "DEBUG"}}, command `nbdiff a b`:
args.log_level == 'DEBUG' but the nbdime/root loggers stay at INFO.
Cause: args.LogLevelAction configures logging in __init__ with the hard-coded
argparse default ('INFO', before ConfigBackedParser.set_defaults runs) and in
__call__, which argparse only invokes when the flag is present.

Run:  PYTHONPATH=<tree> python C19_config_log_level_not_applied.py
"""
import json, logging, os, sys, tempfile

root = tempfile.mkdtemp()
user = os.path.join(root, 'user'); cwd = os.path.join(root, 'cwd')
os.makedirs(user); os.makedirs(cwd)
os.environ['JUPYTER_CONFIG_DIR'] = user
os.environ['JUPYTER_CONFIG_PATH'] = user
os.chdir(cwd)
with open(os.path.join(cwd, 'nbdime_config.json'), 'w') as f:
    json.dump({"NbDiff": {"log_level": "DEBUG"}}, f)

sys.argv[0] = 'nbdiff'
from nbdime.nbdiffapp import _build_arg_parser
import nbdime.log

ns = _build_arg_parser().parse_args(['a.ipynb', 'b.ipynb'])
from_config = logging.getLevelName(nbdime.log.logger.getEffectiveLevel())
ns2 = _build_arg_parser().parse_args(['a.ipynb', 'b.ipynb', '--log-level', 'DEBUG'])
from_flag = logging.getLevelName(nbdime.log.logger.getEffectiveLevel())
assert ns.log_level == 'DEBUG', ns.log_level          # the value is resolved from config ...
assert from_flag == 'DEBUG', from_flag                # ... and the flag does work
if from_config != 'DEBUG':
    print("C19 VIOLATED: NbDiff.log_level=DEBUG from config: args.log_level=%r but effective logger level is %s"
          % (ns.log_level, from_config))
    sys.exit(1)
print("ok")
sys.exit(0)
