"""C20 (and C19): the first /api/merge request re-reads the configuration and
re-applies its "Ignore" mapping to the process-wide differs, so (a) identical
/api/diff requests are answered differently before and after a merge request,
and (b) ignorable flags given at start-up are overridden by config.

Setup: ./nbdime_config.json = {"NbMergeWeb": {"Ignore": {"/cells/*/outputs": true}}},
server started as `nbmerge-web --outputs --sources base local remote`
(flags say: DO process outputs).  base/local identical, remote changes an output.
  POST /api/diff  (base, remote) -> output change reported   (flags in force)
  POST /api/merge                -> no decisions at all      (outputs ignored!)
  POST /api/diff  (base, remote) -> empty diff               (answer changed)
Cause: ApiMergeHandler.post (nbdimeserver.py) builds its merge arguments with
build_merge_parser().parse_args(['', '', '']); that parser is a
ConfigBackedParser whose parse step calls set_notebook_diff_ignores(config
Ignore) (args.py) as a side effect - after process_diff_flags() ran at start-up.

Run:  PYTHONPATH=<tree> python C20_merge_request_reconfigures_differs.py
"""
# ---------------------------------------------------------------------------
# nbdime.webapp.nbdimeserver imports jinja2 and jupyter_server.  If they are
# not installed, install minimal stand-ins (tornado-only) that mirror what the
# server module uses: JupyterHandler.base_url/log/render_template, APIHandler
# (JSON error bodies), url_path_join, log_request.  Real packages are used when
# available.
def _install_stubs():
    import sys, types, json, logging
    try:
        import jinja2  # noqa
    except ImportError:
        m = types.ModuleType('jinja2')
        class FileSystemLoader(object):
            def __init__(self, paths): self.paths = paths
        class _Template(object):
            def __init__(self, name): self.name = name
            def render(self, **kw): return '<html>%s</html>' % self.name
        class Environment(object):
            def __init__(self, loader=None, **kw): self.loader = loader
            def get_template(self, name): return _Template(name)
        m.FileSystemLoader = FileSystemLoader; m.Environment = Environment
        sys.modules['jinja2'] = m
    try:
        import jupyter_server.base.handlers  # noqa
    except ImportError:
        from tornado import web
        js = types.ModuleType('jupyter_server'); js.__path__ = []
        base = types.ModuleType('jupyter_server.base'); base.__path__ = []
        h = types.ModuleType('jupyter_server.base.handlers')
        utils = types.ModuleType('jupyter_server.utils')
        log = types.ModuleType('jupyter_server.log')
        class JupyterHandler(web.RequestHandler):
            @property
            def base_url(self): return self.settings.get('base_url', '/')
            @property
            def log(self): return logging.getLogger('jupyter-server-stub')
            def render_template(self, name, **ns):
                return self.settings['jinja2_env'].get_template(name).render(**ns)
        class APIHandler(JupyterHandler):
            def write_error(self, status_code, **kwargs):
                self.set_header('Content-Type', 'application/json')
                self.finish(json.dumps({'message': 'error %d' % status_code}))
        h.JupyterHandler = JupyterHandler; h.APIHandler = APIHandler
        def url_path_join(*pieces):
            initial = pieces[0].startswith('/'); final = pieces[-1].endswith('/')
            result = '/'.join(s for s in [p.strip('/') for p in pieces] if s)
            if initial: result = '/' + result
            if final: result = result + '/'
            return '/' if result == '//' else result
        utils.url_path_join = url_path_join
        log.log_request = lambda handler: None
        js.base = base; base.handlers = h; js.utils = utils; js.log = log
        sys.modules.update({'jupyter_server': js, 'jupyter_server.base': base,
                            'jupyter_server.base.handlers': h, 'jupyter_server.utils': utils,
                            'jupyter_server.log': log})
_install_stubs()
# ---------------------------------------------------------------------------

import asyncio, json, logging, os, sys, tempfile
logging.disable(logging.CRITICAL)
import nbformat
from nbformat.v4 import new_notebook, new_code_cell, new_output
from tornado import httpserver, netutil
from tornado.httpclient import AsyncHTTPClient, HTTPRequest


class Server(object):
    """nbdime web app on a free 127.0.0.1 port, inside the running asyncio loop."""
    def __init__(self, **params):
        from nbdime.webapp import nbdimeserver
        base_url = params.get('base_url', '/')
        self.prefix = base_url.rstrip('/') if base_url != '/' else ''
        params.setdefault('closable', False)
        self.app = nbdimeserver.make_app(**params)
        socks = netutil.bind_sockets(0, '127.0.0.1')
        self.http = httpserver.HTTPServer(self.app)
        self.http.add_sockets(socks)
        self.port = socks[0].getsockname()[1]
    async def post(self, path, body):
        if not isinstance(body, (str, bytes)):
            body = json.dumps(body)
        url = 'http://127.0.0.1:%d%s%s' % (self.port, self.prefix, path)
        r = await AsyncHTTPClient().fetch(HTTPRequest(url, method='POST', body=body), raise_error=False)
        try:
            data = json.loads(r.body)
        except Exception:
            data = None
        return r.code, data
    def stop(self):
        self.http.stop()


def write_nb(path, nb):
    nbformat.validate(nb)
    with open(path, 'w', encoding='utf8') as f:
        nbformat.write(nb, f)

def start_via_entry_point(argv0, module_name, argv):
    """Run the entry point's main() exactly as the console script would, but
    capture the keyword arguments it passes to the server instead of blocking in
    the IOLoop; the caller then starts the app with these arguments."""
    import importlib
    from unittest import mock
    mod = importlib.import_module(module_name)
    captured = {}
    sys.argv[0] = argv0
    with mock.patch.object(mod, 'run_server', lambda **kw: captured.update(kw) or 0):
        mod.main(argv)
    for k in ('on_port', 'port', 'ip'):
        captured.pop(k, None)
    return captured

async def main():
    d = tempfile.mkdtemp()
    cfgdir = os.path.join(d, 'jupyter'); os.makedirs(cfgdir)
    os.environ['JUPYTER_CONFIG_DIR'] = cfgdir
    os.environ['JUPYTER_CONFIG_PATH'] = cfgdir
    os.chdir(d)
    def nb(text):
        c = new_code_cell('x', execution_count=1, outputs=[new_output('stream', name='stdout', text=text)])
        c['id'] = 'cell-1'
        return new_notebook(cells=[c])
    write_nb(os.path.join(d, 'base.ipynb'), nb('1\n'))
    write_nb(os.path.join(d, 'local.ipynb'), nb('1\n'))
    write_nb(os.path.join(d, 'remote.ipynb'), nb('2\n'))
    with open(os.path.join(d, 'nbdime_config.json'), 'w') as f:
        json.dump({"NbMergeWeb": {"Ignore": {"/cells/*/outputs": True}}}, f)

    kwargs = start_via_entry_point('nbmerge-web', 'nbdime.webapp.nbmergeweb',
                                   ['-w', d, '--outputs', '--sources', 'base.ipynb', 'local.ipynb', 'remote.ipynb'])
    srv = Server(**kwargs)
    dreq = {'base': 'base.ipynb', 'remote': 'remote.ipynb'}
    c1, first = await srv.post('/api/diff', dreq)
    c2, merge = await srv.post('/api/merge', {'base': 'base.ipynb', 'local': 'local.ipynb', 'remote': 'remote.ipynb'})
    c3, later = await srv.post('/api/diff', dreq)
    srv.stop()
    assert (c1, c2, c3) == (200, 200, 200), (c1, c2, c3)
    problems = []
    if first['diff'] != later['diff']:
        problems.append("same /api/diff request: first answer %s, answer after one /api/merge %s"
                        % (json.dumps(first['diff'])[:120] + '...', json.dumps(later['diff'])))
    if not merge['merge_decisions']:
        problems.append("/api/merge returned no decisions although --outputs was given and remote changes an output "
                        "(config Ignore won over the flag)")
    return problems

problems = asyncio.run(main())
if problems:
    print("C20 VIOLATED: a merge request changes global diff configuration")
    for p in problems:
        print("  " + p)
    sys.exit(1)
print("ok")
sys.exit(0)
