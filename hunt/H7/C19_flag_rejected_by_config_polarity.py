"""C19: an "ignorable" flag on the command line is rejected (crash) when a
config file sets another ignorable with the opposite polarity, instead of the
flag overriding / coexisting with the config value.

Config from docs/source/config.rst: {"NbDiff": {"details": false}}.  Command:
`nbdiff --sources a.ipynb b.ipynb` (or -s).  Expected by the documented rule
("Any flags passed on the CLI will override the config value"): sources=True
from the flag, details=False from the config, the run succeeds.  Observed:
args.process_exclusive_ignorables() (nbdime/args.py) mixes config-provided
defaults and flags in one polarity check and raises
argparse.ArgumentError("Arguments must either all be negative or all positive").

Run:  PYTHONPATH=<tree> python C19_flag_rejected_by_config_polarity.py
"""
import json, os, subprocess, sys, tempfile
import nbformat
from nbformat.v4 import new_notebook, new_code_cell

root = tempfile.mkdtemp()
user = os.path.join(root, 'user'); cwd = os.path.join(root, 'cwd'); bindir = os.path.join(root, 'bin')
for p in (user, cwd, bindir):
    os.makedirs(p)
def nb(src):
    n = new_notebook(cells=[new_code_cell(src, execution_count=1)])
    n.cells[0]['id'] = 'cell-1'
    nbformat.validate(n)
    return n
nbformat.write(nb('x = 1'), os.path.join(cwd, 'a.ipynb'))
nbformat.write(nb('x = 2'), os.path.join(cwd, 'b.ipynb'))
with open(os.path.join(cwd, 'nbdime_config.json'), 'w') as f:
    json.dump({"NbDiff": {"details": False}}, f)
launcher = os.path.join(bindir, 'nbdiff')
with open(launcher, 'w') as f:
    f.write("import sys\nfrom nbdime.nbdiffapp import main\nsys.exit(main())\n")
env = dict(os.environ, JUPYTER_CONFIG_DIR=user, JUPYTER_CONFIG_PATH=user)
def run(extra):
    p = subprocess.run([sys.executable, launcher] + extra + ['--no-color', '--no-git', '--no-use-diff', 'a.ipynb', 'b.ipynb'],
                       cwd=cwd, env=env, stdout=subprocess.PIPE, stderr=subprocess.PIPE, universal_newlines=True, timeout=25)
    return p
base = run([])
assert base.returncode == 0 and 'source' in base.stdout, (base.returncode, base.stdout, base.stderr)
p = run(['--sources'])
if p.returncode != 0 or 'source' not in p.stdout:
    print("C19 VIOLATED: config NbDiff.details=false + flag --sources: nbdiff fails instead of applying flag over config")
    print("  exit status %r, last stderr line: %s" % (p.returncode, (p.stderr.strip().splitlines() or [''])[-1]))
    sys.exit(1)
print("ok")
sys.exit(0)
