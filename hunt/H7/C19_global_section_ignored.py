"""C19: options set in the documented "Global" config section are never applied.

docs/source/config.rst: "Global -- Options to apply to all commands".  The only
Global option is log_level.  nbdime/config.py defines class Global, but no
entry point configurable inherits from it (Web and _Ignorables derive directly
from NbdimeConfigurable), so build_config() never looks at the "Global" section.

Run:  PYTHONPATH=<tree> python C19_global_section_ignored.py
"""
import json, os, sys, tempfile, logging

root = tempfile.mkdtemp()
user = os.path.join(root, 'user'); cwd = os.path.join(root, 'cwd')
os.makedirs(user); os.makedirs(cwd)
os.environ['JUPYTER_CONFIG_DIR'] = user
os.environ['JUPYTER_CONFIG_PATH'] = user
os.chdir(cwd)
with open(os.path.join(user, 'nbdime_config.json'), 'w') as f:
    json.dump({"Global": {"log_level": "ERROR"}}, f)

from nbdime.config import build_config, entrypoint_configurables

bad = []
for ep in entrypoint_configurables:
    cfg = build_config(ep)
    if cfg.get('log_level') != 'ERROR':
        bad.append("%s: effective log_level from config = %r (expected 'ERROR')" % (ep, cfg.get('log_level', '<not set>')))

# the same through a real argument parser (console script name == prog)
sys.argv[0] = 'nbdiff'
from nbdime.nbdiffapp import _build_arg_parser
ns = _build_arg_parser().parse_args(['a.ipynb', 'b.ipynb'])
if ns.log_level != 'ERROR':
    bad.append("nbdiff parser: args.log_level = %r with Global.log_level=ERROR and no flag" % ns.log_level)

if bad:
    print("C19 VIOLATED: the Global config section has no effect on any entry point")
    print("\n".join(bad))
    sys.exit(1)
print("ok")
sys.exit(0)
