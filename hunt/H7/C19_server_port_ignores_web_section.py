"""C19: for the 'server' entry point a port set in the less specific "Web"
section is overridden by the built-in default of the more specific class.

config.Server re-declares `port` (default 8888).  build_config() walks the MRO
from least to most specific and, for every class, first applies the class' own
*defaults* and then the class' section from disk.  The Server defaults (applied
after the Web section) therefore clobber a value that came from a config file.
Rule expected: flag > most specific section that sets it > built-in default.

Run:  PYTHONPATH=<tree> python C19_server_port_ignores_web_section.py
"""
import json, os, sys, tempfile

root = tempfile.mkdtemp()
user = os.path.join(root, 'user'); cwd = os.path.join(root, 'cwd')
os.makedirs(user); os.makedirs(cwd)
os.environ['JUPYTER_CONFIG_DIR'] = user
os.environ['JUPYTER_CONFIG_PATH'] = user
os.chdir(cwd)
with open(os.path.join(user, 'nbdime_config.json'), 'w') as f:
    json.dump({"Web": {"port": 4567, "ip": "localhost"}}, f)

from nbdime.config import build_config
from nbdime.args import ConfigBackedParser, add_generic_args, add_web_args

server = build_config('server')
sibling = build_config('nbdiff-web')
assert sibling['port'] == 4567 and sibling['ip'] == 'localhost', sibling   # Web section works elsewhere
assert server['ip'] == 'localhost', server                                  # ... and for other Server options

# Same parser as nbdime.webapp.nbdimeserver._build_arg_parser (that module needs jinja2/jupyter_server)
parser = ConfigBackedParser(prog='server')
add_generic_args(parser)
add_web_args(parser)
ns = parser.parse_args([])

if server['port'] != 4567 or ns.port != 4567:
    print("C19 VIOLATED: Web.port=4567 is set in the config file, no Server.port, no --port flag")
    print("  build_config('server')['port'] = %r, parsed args.port = %r (expected 4567)" % (server['port'], ns.port))
    print("  build_config('nbdiff-web')['port'] = %r (Web section honoured there)" % sibling['port'])
    sys.exit(1)
print("ok")
sys.exit(0)
