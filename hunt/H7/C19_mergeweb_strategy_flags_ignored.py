"""C19: nbmerge-web (and the git mergetool) accept --merge-strategy,
--input-strategy, --output-strategy and --no-ignore-transients, but the values
given as flags never reach the merge; the same options set in a config file do.
So for these options the order is config > flag(ignored) instead of flag > config.

base/local/remote change the same source line differently (a conflict).
  nbmerge-web --input-strategy use-local ...            -> /api/merge still reports the conflict
  config {"NbMergeWeb": {"input_strategy": "use-local"}} -> conflict auto-resolved
  config use-remote + flag --input-strategy use-local    -> resolved as use-remote (config wins)
Cause: nbmergeweb.main()/nbmergetool.main_parsed() pass only the web arguments
to the server; ApiMergeHandler.post (nbdimeserver.py) builds fresh arguments
with build_merge_parser().parse_args(['', '', '']) (config-backed, no flags).

Run:  PYTHONPATH=<tree> python C19_mergeweb_strategy_flags_ignored.py
"""
# ---------------------------------------------------------------------------
# nbdime.webapp.nbdimeserver imports jinja2 and jupyter_server.  If they are
# not installed, install minimal stand-ins (tornado-only) that mirror what the
# server module uses: JupyterHandler.base_url/log/render_template, APIHandler
# (JSON error bodies), url_path_join, log_request.  Real packages are used when
# available.
def _install_stubs():
    import sys, types, json, logging
    try:
        import jinja2  # noqa
    except ImportError:
        m = types.ModuleType('jinja2')
        class FileSystemLoader(object):
            def __init__(self, paths): self.paths = paths
        class _Template(object):
            def __init__(self, name): self.name = name
            def render(self, **kw): return '<html>%s</html>' % self.name
        class Environment(object):
            def __init__(self, loader=None, **kw): self.loader = loader
            def get_template(self, name): return _Template(name)
        m.FileSystemLoader = FileSystemLoader; m.Environment = Environment
        sys.modules['jinja2'] = m
    try:
        import jupyter_server.base.handlers  # noqa
    except ImportError:
        from tornado import web
        js = types.ModuleType('jupyter_server'); js.__path__ = []
        base = types.ModuleType('jupyter_server.base'); base.__path__ = []
        h = types.ModuleType('jupyter_server.base.handlers')
        utils = types.ModuleType('jupyter_server.utils')
        log = types.ModuleType('jupyter_server.log')
        class JupyterHandler(web.RequestHandler):
            @property
            def base_url(self): return self.settings.get('base_url', '/')
            @property
            def log(self): return logging.getLogger('jupyter-server-stub')
            def render_template(self, name, **ns):
                return self.settings['jinja2_env'].get_template(name).render(**ns)
        class APIHandler(JupyterHandler):
            def write_error(self, status_code, **kwargs):
                self.set_header('Content-Type', 'application/json')
                self.finish(json.dumps({'message': 'error %d' % status_code}))
        h.JupyterHandler = JupyterHandler; h.APIHandler = APIHandler
        def url_path_join(*pieces):
            initial = pieces[0].startswith('/'); final = pieces[-1].endswith('/')
            result = '/'.join(s for s in [p.strip('/') for p in pieces] if s)
            if initial: result = '/' + result
            if final: result = result + '/'
            return '/' if result == '//' else result
        utils.url_path_join = url_path_join
        log.log_request = lambda handler: None
        js.base = base; base.handlers = h; js.utils = utils; js.log = log
        sys.modules.update({'jupyter_server': js, 'jupyter_server.base': base,
                            'jupyter_server.base.handlers': h, 'jupyter_server.utils': utils,
                            'jupyter_server.log': log})
_install_stubs()
# ---------------------------------------------------------------------------

import asyncio, json, logging, os, sys, tempfile
logging.disable(logging.CRITICAL)
import nbformat
from nbformat.v4 import new_notebook, new_code_cell, new_output
from tornado import httpserver, netutil
from tornado.httpclient import AsyncHTTPClient, HTTPRequest


class Server(object):
    """nbdime web app on a free 127.0.0.1 port, inside the running asyncio loop."""
    def __init__(self, **params):
        from nbdime.webapp import nbdimeserver
        base_url = params.get('base_url', '/')
        self.prefix = base_url.rstrip('/') if base_url != '/' else ''
        params.setdefault('closable', False)
        self.app = nbdimeserver.make_app(**params)
        socks = netutil.bind_sockets(0, '127.0.0.1')
        self.http = httpserver.HTTPServer(self.app)
        self.http.add_sockets(socks)
        self.port = socks[0].getsockname()[1]
    async def post(self, path, body):
        if not isinstance(body, (str, bytes)):
            body = json.dumps(body)
        url = 'http://127.0.0.1:%d%s%s' % (self.port, self.prefix, path)
        r = await AsyncHTTPClient().fetch(HTTPRequest(url, method='POST', body=body), raise_error=False)
        try:
            data = json.loads(r.body)
        except Exception:
            data = None
        return r.code, data
    def stop(self):
        self.http.stop()


def write_nb(path, nb):
    nbformat.validate(nb)
    with open(path, 'w', encoding='utf8') as f:
        nbformat.write(nb, f)

def start_via_entry_point(argv0, module_name, argv):
    """Run the entry point's main() exactly as the console script would, but
    capture the keyword arguments it passes to the server instead of blocking in
    the IOLoop; the caller then starts the app with these arguments."""
    import importlib
    from unittest import mock
    mod = importlib.import_module(module_name)
    captured = {}
    sys.argv[0] = argv0
    with mock.patch.object(mod, 'run_server', lambda **kw: captured.update(kw) or 0):
        mod.main(argv)
    for k in ('on_port', 'port', 'ip'):
        captured.pop(k, None)
    return captured

async def decisions_for(d, config, flags):
    cfg = os.path.join(d, 'nbdime_config.json')
    if config is None:
        if os.path.exists(cfg):
            os.remove(cfg)
    else:
        with open(cfg, 'w') as f:
            json.dump(config, f)
    kwargs = start_via_entry_point('nbmerge-web', 'nbdime.webapp.nbmergeweb',
                                   ['-w', d] + flags + ['base.ipynb', 'local.ipynb', 'remote.ipynb'])
    srv = Server(**kwargs)
    code, data = await srv.post('/api/merge', {'base': 'base.ipynb', 'local': 'local.ipynb', 'remote': 'remote.ipynb'})
    srv.stop()
    assert code == 200, code
    return [(dec['common_path'], dec['action'], dec['conflict']) for dec in data['merge_decisions']]

async def main():
    d = tempfile.mkdtemp()
    cfgdir = os.path.join(d, 'jupyter'); os.makedirs(cfgdir)
    os.environ['JUPYTER_CONFIG_DIR'] = cfgdir
    os.environ['JUPYTER_CONFIG_PATH'] = cfgdir
    os.chdir(d)
    def nb(src):
        c = new_code_cell(src); c['id'] = 'cell-1'
        return new_notebook(cells=[c])
    write_nb(os.path.join(d, 'base.ipynb'), nb('x'))
    write_nb(os.path.join(d, 'local.ipynb'), nb('x\nlocal'))
    write_nb(os.path.join(d, 'remote.ipynb'), nb('x\nremote'))

    default = await decisions_for(d, None, [])
    by_flag = await decisions_for(d, None, ['--input-strategy', 'use-local'])
    by_conf = await decisions_for(d, {"NbMergeWeb": {"input_strategy": "use-local"}}, [])
    both = await decisions_for(d, {"NbMergeWeb": {"input_strategy": "use-remote"}}, ['--input-strategy', 'use-local'])
    assert any(c for (_, _, c) in default), default            # it is a conflict by default
    assert not any(c for (_, _, c) in by_conf), by_conf        # the option works when it comes from config
    problems = []
    if by_flag != by_conf:
        problems.append("--input-strategy use-local: decisions %r (same as without flag: %r); via config: %r"
                        % (by_flag, by_flag == default, by_conf))
    if both != by_conf:
        problems.append("config use-remote + flag use-local: decisions %r, expected the flag to win: %r" % (both, by_conf))
    return problems

problems = asyncio.run(main())
if problems:
    print("C19 VIOLATED: merge strategy flags of nbmerge-web are ignored")
    for p in problems:
        print("  " + p)
    sys.exit(1)
print("ok")
sys.exit(0)
