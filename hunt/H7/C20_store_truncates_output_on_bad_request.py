"""C20: a malformed /api/store request destroys the output file although it is
answered with an error; an invalid notebook is stored with status 200.

Server started with an output file (nbmerge-web --out / mergetool mode).
 1. POST /api/store {"merged": <valid notebook>}  -> 200, file written.
 2. POST /api/store {"merged": "oops"} (also [] ...) -> 500, but out.ipynb has
    been truncated to 0 bytes: ApiMergeStoreHandler.post (nbdimeserver.py) opens
    the file with mode 'w' before nbformat.write() has serialised/validated
    anything.  Property: malformed requests change nothing on disk.
 3. POST /api/store {"merged": {}} -> 200 and '{}'-like garbage is written:
    nbformat.write only logs validation errors, the handler never validates.

Run:  PYTHONPATH=<tree> python C20_store_truncates_output_on_bad_request.py
"""
# ---------------------------------------------------------------------------
# nbdime.webapp.nbdimeserver imports jinja2 and jupyter_server.  If they are
# not installed, install minimal stand-ins (tornado-only) that mirror what the
# server module uses: JupyterHandler.base_url/log/render_template, APIHandler
# (JSON error bodies), url_path_join, log_request.  Real packages are used when
# available.
def _install_stubs():
    import sys, types, json, logging
    try:
        import jinja2  # noqa
    except ImportError:
        m = types.ModuleType('jinja2')
        class FileSystemLoader(object):
            def __init__(self, paths): self.paths = paths
        class _Template(object):
            def __init__(self, name): self.name = name
            def render(self, **kw): return '<html>%s</html>' % self.name
        class Environment(object):
            def __init__(self, loader=None, **kw): self.loader = loader
            def get_template(self, name): return _Template(name)
        m.FileSystemLoader = FileSystemLoader; m.Environment = Environment
        sys.modules['jinja2'] = m
    try:
        import jupyter_server.base.handlers  # noqa
    except ImportError:
        from tornado import web
        js = types.ModuleType('jupyter_server'); js.__path__ = []
        base = types.ModuleType('jupyter_server.base'); base.__path__ = []
        h = types.ModuleType('jupyter_server.base.handlers')
        utils = types.ModuleType('jupyter_server.utils')
        log = types.ModuleType('jupyter_server.log')
        class JupyterHandler(web.RequestHandler):
            @property
            def base_url(self): return self.settings.get('base_url', '/')
            @property
            def log(self): return logging.getLogger('jupyter-server-stub')
            def render_template(self, name, **ns):
                return self.settings['jinja2_env'].get_template(name).render(**ns)
        class APIHandler(JupyterHandler):
            def write_error(self, status_code, **kwargs):
                self.set_header('Content-Type', 'application/json')
                self.finish(json.dumps({'message': 'error %d' % status_code}))
        h.JupyterHandler = JupyterHandler; h.APIHandler = APIHandler
        def url_path_join(*pieces):
            initial = pieces[0].startswith('/'); final = pieces[-1].endswith('/')
            result = '/'.join(s for s in [p.strip('/') for p in pieces] if s)
            if initial: result = '/' + result
            if final: result = result + '/'
            return '/' if result == '//' else result
        utils.url_path_join = url_path_join
        log.log_request = lambda handler: None
        js.base = base; base.handlers = h; js.utils = utils; js.log = log
        sys.modules.update({'jupyter_server': js, 'jupyter_server.base': base,
                            'jupyter_server.base.handlers': h, 'jupyter_server.utils': utils,
                            'jupyter_server.log': log})
_install_stubs()
# ---------------------------------------------------------------------------

import asyncio, json, logging, os, sys, tempfile
logging.disable(logging.CRITICAL)
import nbformat
from nbformat.v4 import new_notebook, new_code_cell, new_output
from tornado import httpserver, netutil
from tornado.httpclient import AsyncHTTPClient, HTTPRequest


class Server(object):
    """nbdime web app on a free 127.0.0.1 port, inside the running asyncio loop."""
    def __init__(self, **params):
        from nbdime.webapp import nbdimeserver
        base_url = params.get('base_url', '/')
        self.prefix = base_url.rstrip('/') if base_url != '/' else ''
        params.setdefault('closable', False)
        self.app = nbdimeserver.make_app(**params)
        socks = netutil.bind_sockets(0, '127.0.0.1')
        self.http = httpserver.HTTPServer(self.app)
        self.http.add_sockets(socks)
        self.port = socks[0].getsockname()[1]
    async def post(self, path, body):
        if not isinstance(body, (str, bytes)):
            body = json.dumps(body)
        url = 'http://127.0.0.1:%d%s%s' % (self.port, self.prefix, path)
        r = await AsyncHTTPClient().fetch(HTTPRequest(url, method='POST', body=body), raise_error=False)
        try:
            data = json.loads(r.body)
        except Exception:
            data = None
        return r.code, data
    def stop(self):
        self.http.stop()


def write_nb(path, nb):
    nbformat.validate(nb)
    with open(path, 'w', encoding='utf8') as f:
        nbformat.write(nb, f)

async def main():
    d = tempfile.mkdtemp()
    c = new_code_cell('x = 1'); c['id'] = 'cell-1'
    good = new_notebook(cells=[c])
    nbformat.validate(good)
    out = os.path.join(d, 'out.ipynb')
    srv = Server(cwd=d, outputfilename='out.ipynb')
    problems = []

    code, _ = await srv.post('/api/store', {'merged': json.loads(json.dumps(good))})
    assert code == 200, code
    saved = open(out, 'rb').read()
    assert json.loads(saved.decode('utf8'))['cells'][0]['id'] == 'cell-1'

    for bad in ('oops', [], 5):
        code, _ = await srv.post('/api/store', {'merged': bad})
        now = open(out, 'rb').read()
        if code < 400:
            problems.append("merged=%r answered with status %d" % (bad, code))
        if now != saved:
            problems.append("merged=%r: status %d but out.ipynb changed from %d bytes to %d bytes"
                            % (bad, code, len(saved), len(now)))
        with open(out, 'wb') as f:      # restore for the next round
            f.write(saved)

    code, _ = await srv.post('/api/store', {'merged': {}})
    now = open(out, 'rb').read()
    if code < 400 or now != saved:
        problems.append("merged={} (not a notebook): status %d, out.ipynb now contains %r" % (code, now[:40]))
    srv.stop()
    return problems

problems = asyncio.run(main())
if problems:
    print("C20 VIOLATED: malformed store requests modify the output file")
    for p in problems:
        print("  " + p)
    sys.exit(1)
print("ok")
sys.exit(0)
