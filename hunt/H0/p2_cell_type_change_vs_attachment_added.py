#!/usr/bin/env python
"""P2: local converts a markdown cell (4.5, id kept) to a code cell, remote adds an attachment
to it. Default strategies, no conflict reported. The merged code cell has 'attachments'.

Run as:  PYTHONPATH=<nbdime tree> /venv/bin/python p2_cell_type_change_vs_attachment_added.py
Exit status 1 (with the exception / validation message printed) when the
property is violated, 0 when the merge behaves, 2 if the inputs are not valid.
"""
import copy
import json
import logging
import os
import sys
import traceback

import jsonschema
import nbformat
from nbformat import v4

logging.disable(logging.CRITICAL)   # silence nbdime's own warnings

from nbdime import nbmergeapp
from nbdime.merging.notebooks import merge_notebooks

# Command line flags of nbmerge needed to trigger the failure ([] = defaults)
FLAGS = []
# Set by the few cases that need args.merge_strategy="union", which
# merge_notebooks() implements but the nbmerge argument parser does not offer.
FORCE_UNION = False


def notebook(cells, minor, metadata=None):
    return nbformat.from_dict({
        "nbformat": 4, "nbformat_minor": minor,
        "metadata": metadata or {}, "cells": cells})


def code(source="", outputs=(), execution_count=None, metadata=None, id=None):
    c = {"cell_type": "code", "source": source, "metadata": metadata or {},
         "outputs": list(outputs), "execution_count": execution_count}
    if id is not None:
        c["id"] = id
    return c


def markdown(source="", metadata=None, id=None, attachments=None):
    c = {"cell_type": "markdown", "source": source, "metadata": metadata or {}}
    if attachments is not None:
        c["attachments"] = attachments
    if id is not None:
        c["id"] = id
    return c


def raw(source="", metadata=None, id=None):
    c = {"cell_type": "raw", "source": source, "metadata": metadata or {}}
    if id is not None:
        c["id"] = id
    return c


def stream(text, name="stdout"):
    return {"output_type": "stream", "name": name, "text": text}


def _leaf_errors(e):
    """Resolve a oneOf error to the errors of the alternative selected by cell_type/output_type."""
    if not e.context:
        return [e]
    branches = {}
    for c in e.context:
        branches.setdefault(c.schema_path[0], []).append(c)
    out = []
    for errs in branches.values():
        if any(c.validator == "enum" and c.absolute_path and
               c.absolute_path[-1] in ("cell_type", "output_type") for c in errs):
            continue   # alternative for another cell/output type
        for c in errs:
            out.extend(_leaf_errors(c))
    return out or [e]


def schema_errors(nb):
    """jsonschema errors of nb against the schema of the minor it declares."""
    fn = os.path.join(os.path.dirname(v4.__file__),
                      "nbformat.v4.%d.schema.json" % nb["nbformat_minor"])
    with open(fn) as f:
        schema = json.load(f)
    validator = jsonschema.Draft4Validator(schema)
    msgs = []
    for e in validator.iter_errors(json.loads(json.dumps(nb))):
        for leaf in _leaf_errors(e):
            msg = leaf.message if len(leaf.message) < 200 else leaf.message[:60] + " ... " + leaf.message[-100:]
            msgs.append("at /%s: %s" % ("/".join(map(str, leaf.absolute_path)), msg))
    return msgs


PNG_A = "iVBORw0KGgoAAAANSUhEUgAAAAEAAAABCAYAAAAfFcSJAAAADUlEQVR42mNk+M9QDwADhgGAWjR9awAAAABJRU5ErkJggg=="
PNG_B = "iVBORw0KGgoAAAANSUhEUgAAAAEAAAABCAYAAAAfFcSJAAAADUlEQVR42mP8z8BQDwAEhQGAhKmMIQAAAABJRU5ErkJggg=="


def build():
    base = notebook([markdown("a", id="aaaa1111")], 5)
    local = notebook([code("a", id="aaaa1111")], 5)
    remote = notebook([markdown("a", id="aaaa1111", attachments={"a.png": {"image/png": PNG_A}})], 5)
    return base, local, remote


def main():
    base, local, remote = build()
    for name, nb in (("base", base), ("local", local), ("remote", remote)):
        errs = schema_errors(nb)
        if errs:
            print("INPUT %s is not schema-valid: %s" % (name, errs))
            return 2
    args = nbmergeapp._build_arg_parser().parse_args(FLAGS + ["b.ipynb", "l.ipynb", "r.ipynb"])
    if FORCE_UNION:
        args.merge_strategy = "union"
    try:
        merged, decisions = merge_notebooks(base, local, remote, args)
    except Exception:
        print("P1 VIOLATED: merge_notebooks raised (flags: %s%s)" % (
            " ".join(FLAGS) or "<defaults>", " + merge_strategy=union" if FORCE_UNION else ""))
        traceback.print_exc(file=sys.stdout)
        return 1
    errs = schema_errors(merged)
    if errs:
        print("P2 VIOLATED: merged notebook (nbformat 4.%d) is not schema-valid (flags: %s):" % (
            merged["nbformat_minor"], " ".join(FLAGS) or "<defaults>"))
        for m in errs:
            print("  " + m)
        return 1
    print("ok: merged without error, result is schema-valid (%d decisions, %d conflicted)" % (
        len(decisions), sum(1 for d in decisions if d.conflict)))
    return 0


if __name__ == "__main__":
    sys.exit(main())
