"""C14: two notebooks that differ ONLY in cell ids must give an empty diff when
ids are ignored (nbdiff -I / --ignore-id).  They do not: the cell aligner still
matches cells by id (compare_cell_by_ids), so ids that moved to other cells make
whole cells show up as deleted / inserted / source-modified."""
import io, sys, copy
import nbformat
from nbformat.v4 import new_notebook, new_code_cell
from nbdime.diffing.notebooks import diff_notebooks, set_notebook_diff_targets, reset_notebook_differ
from nbdime.prettyprint import PrettyPrintConfig, pretty_print_notebook_diff


def cell(cid, src):
    c = new_code_cell(source=src)
    c['id'] = cid
    return c


a = new_notebook(cells=[cell('id1', 'x = 1'), cell('id2', 'y = 2')])
b = new_notebook(cells=[cell('id2', 'x = 1'), cell('id3', 'y = 2')])
for nb in (a, b):
    nb.nbformat_minor = 5
    nbformat.validate(nb)

# oracle: identical once the ids are masked
def strip(nb):
    nb = copy.deepcopy(nb)
    for c in nb.cells:
        del c['id']
    return nb
assert strip(a) == strip(b)

reset_notebook_differ()
set_notebook_diff_targets(identifier=False)       # what `nbdiff -I` does
try:
    d = diff_notebooks(a, b)
finally:
    reset_notebook_differ()

class Inc:
    sources = outputs = attachments = metadata = details = True
    id = False
out = io.StringIO()
pretty_print_notebook_diff('a', 'b', a, d, PrettyPrintConfig(out=out, include=Inc, use_color=False))

if d or out.getvalue():
    print("VIOLATION C14: ids ignored, notebooks differ only in ids, yet diff is not empty:")
    print(d)
    print(out.getvalue())
    sys.exit(1)
print("ok")
