"""C14 (printer side): nbshow / the diff printer must hide ignored categories.
pretty_print_output prints an output's metadata and execution_count without
consulting config.metadata / config.details (pretty_print_cell does consult them
for the cell's own metadata and execution_count).  So `nbshow --ignore-metadata`
still shows output metadata, `nbshow --ignore-details` still shows the outputs'
execution_count, and `nbshow -o` / `nbshow -s -o` show both."""
import io, sys
import nbformat
from nbformat.v4 import new_notebook, new_code_cell, new_output
from nbdime.prettyprint import PrettyPrintConfig, pretty_print_notebook

c = new_code_cell(source='1', execution_count=7, metadata={'CELLMD': 1}, outputs=[
    new_output('execute_result', data={'text/plain': '1'}, execution_count=7,
               metadata={'OUTMD': {'k': 1}})])
nb = new_notebook(cells=[c], metadata={'NBMD': 1})
nb.nbformat_minor = 4
nb.cells[0].pop('id', None)
nbformat.validate(nb)


def show(**hidden):
    class Inc:
        sources = outputs = attachments = metadata = id = details = True
    for k in hidden:
        setattr(Inc, k, False)
    out = io.StringIO()
    pretty_print_notebook(nb, PrettyPrintConfig(out=out, include=Inc, use_color=False))
    return out.getvalue()

bad = []
o = show(metadata=False)                       # nbshow --ignore-metadata
assert 'NBMD' not in o and 'CELLMD' not in o   # notebook and cell metadata are hidden
if 'OUTMD' in o:
    bad.append(('metadata hidden, output metadata still printed', o))
o = show(details=False)                        # nbshow --ignore-details
if 'execution_count' in o:
    bad.append(('details hidden, output execution_count still printed', o))

if bad:
    print("VIOLATION C14: hidden category is printed")
    for what, o in bad:
        print(" *", what); print(o)
    sys.exit(1)
print("ok")
