"""C16: rendering never fails, also for non-ASCII text.  setup_std_streams
(nbdime/utils.py:_setup_std_stream_encoding) installs a backslashreplace error
handler on stdout, but returns early whenever PYTHONIOENCODING is set - also when
it only names an encoding (error handler still 'strict').  Then nbshow / nbdiff
die with UnicodeEncodeError in the middle of the output:
  PYTHONIOENCODING=utf-8   + a lone surrogate in a cell (valid JSON "\ud800")
  PYTHONIOENCODING=latin-1 + any character outside latin-1 (e.g. a snowman)"""
import os, subprocess, sys, tempfile
import nbformat
from nbformat.v4 import new_notebook, new_code_cell

td = tempfile.mkdtemp()
for name, src in (('a.ipynb', "s = '\ud800 ☃'\n1"), ('b.ipynb', "s = '\ud800 ☃'\n2")):
    nb = new_notebook(cells=[new_code_cell(source=src)])
    nbformat.validate(nb)
    text = nbformat.writes(nb, ensure_ascii=True)      # "\ud800" escape: valid JSON, valid notebook
    with open(os.path.join(td, name), 'w', encoding='ascii') as f:
        f.write(text)
    assert nbformat.reads(text, as_version=4).cells[0].source == src

env = dict(os.environ)
env['PYTHONPATH'] = os.pathsep.join(p for p in sys.path if p)
env['JUPYTER_CONFIG_DIR'] = td


def run(mod, args, ioenc):
    e = dict(env)
    e.pop('PYTHONIOENCODING', None)
    if ioenc:
        e['PYTHONIOENCODING'] = ioenc
    code = "import sys; from %s import main; sys.exit(main(sys.argv[1:]))" % mod
    return subprocess.run([sys.executable, '-c', code] + args, cwd=td, env=e,
                          capture_output=True, timeout=25)

# sanity: without the variable nbdime escapes what the terminal cannot take
p = run('nbdime.nbshowapp', ['a.ipynb'], None)
assert p.returncode == 0 and b'\\ud800' in p.stdout, (p.stdout, p.stderr)

bad = []
for ioenc in ('utf-8', 'latin-1'):
    for mod, args in (('nbdime.nbshowapp', ['a.ipynb']),
                      ('nbdime.nbdiffapp', ['--no-color', 'a.ipynb', 'b.ipynb'])):
        p = run(mod, args, ioenc)
        if p.returncode != 0 or b'Traceback' in p.stderr:
            bad.append((ioenc, mod, p.stderr.decode('utf8', 'replace').strip().splitlines()[-1]))
if bad:
    print("VIOLATION C16: terminal rendering raises")
    for b in bad:
        print(" * PYTHONIOENCODING=%s %s: %s" % b)
    sys.exit(1)
print("ok")
