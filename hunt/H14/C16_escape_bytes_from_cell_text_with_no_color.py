"""C16 (literal reading): 'emits no ANSI escape codes when colour is disabled'.
ESC sequences that are part of the notebook text (every IPython traceback is
stored with ANSI colour codes; also stream outputs of colourising tools) are
written to the terminal unchanged by nbshow and by nbdiff --no-color, for all
three diff renderers.  Nothing in prettyprint.py strips or escapes control
characters of cell text, so --no-color output still contains ESC bytes (and a
notebook can inject arbitrary terminal control sequences)."""
import io, sys
import nbformat
from nbformat.v4 import new_notebook, new_code_cell, new_output
import nbdime.prettyprint as pp
from nbdime.diffing.notebooks import diff_notebooks

TB = ["\x1b[0;31mZeroDivisionError\x1b[0m: division by zero"]


def nb(evalue):
    n = new_notebook(cells=[new_code_cell(source='1/0', outputs=[
        new_output('error', ename='ZeroDivisionError', evalue=evalue, traceback=TB)])])
    n.cells[0]['id'] = 'c0'
    nbformat.validate(n)
    return n

a, b = nb('division by zero'), nb('float division by zero')
bad = []
out = io.StringIO()
pp.pretty_print_notebook(a, pp.PrettyPrintConfig(out=out, use_color=False))
if '\x1b' in out.getvalue():
    bad.append('nbshow (use_color=False)')

# a text diff through each renderer
a2 = nb('x'); b2 = nb('x')
a2.cells[0].outputs[0].traceback = ["\x1b[0;31mErr\x1b[0m\nline 1\n"]
b2.cells[0].outputs[0].traceback = ["\x1b[0;31mErr\x1b[0m\nline 2\n"]
real_which = pp.which
for tool in ('git', 'diff', 'difflib'):
    pp.which = {'git': real_which,
                'diff': lambda n: None if n == 'git' else real_which(n),
                'difflib': lambda n: None}[tool]
    for x, y in ((a, b), (a2, b2)):
        out = io.StringIO()
        pp.pretty_print_notebook_diff('a', 'b', x, diff_notebooks(x, y),
                                      pp.PrettyPrintConfig(out=out, use_color=False))
        if '\x1b' in out.getvalue():
            bad.append('nbdiff --no-color, renderer %s' % tool)
pp.which = real_which
if bad:
    print("VIOLATION C16: ESC bytes in output although colour is disabled:", sorted(set(bad)))
    sys.exit(1)
print("ok")
