"""C14: notebooks that differ only in an ignored category must give an empty diff.
The sequence aligners keep looking at ignored data:
 (1) --ignore-outputs: compare_cell_strict/compare_cell_moderate compare outputs,
     so two cells with equal source whose outputs were swapped are reported as
     one inserted + one deleted cell;
 (2) --ignore-details: compare_output_strict compares execution_count, so two
     outputs differing only in execution_count (swapped) are inserted/deleted;
 (3) --ignore-metadata: same with output metadata."""
import sys, copy
import nbformat
from nbformat.v4 import new_notebook, new_code_cell, new_output
from nbdime.diffing.notebooks import diff_notebooks, set_notebook_diff_targets, reset_notebook_differ


def nb(cells):
    n = new_notebook(cells=cells)
    n.nbformat_minor = 4
    for c in n.cells:
        c.pop('id', None)
    nbformat.validate(n)
    return n


def run(a, b, **kw):
    reset_notebook_differ()
    set_notebook_diff_targets(**kw)
    try:
        return diff_notebooks(a, b)
    finally:
        reset_notebook_differ()


bad = []

# (1) outputs
def co(t):
    return new_code_cell(source='print(v)', outputs=[new_output('stream', name='stdout', text=t)])
a = nb([co('1\n'), co('2\n')]); b = nb([co('2\n'), co('1\n')])
d = run(a, b, outputs=False)
if d:
    bad.append(('outputs ignored, only outputs differ', d))

# (2) details (execution_count of outputs)
def ce(ecs):
    return new_code_cell(source='1', outputs=[
        new_output('execute_result', data={'text/plain': '1'}, execution_count=e) for e in ecs])
a = nb([ce([1, 2])]); b = nb([ce([2, 1])])
d = run(a, b, details=False)
if d:
    bad.append(('details ignored, only output execution_counts differ', d))

# (3) metadata of outputs
def cm(ms):
    return new_code_cell(source='1', outputs=[
        new_output('display_data', data={'text/plain': '1'}, metadata=m) for m in ms])
a = nb([cm([{'a': 1}, {'b': 1}])]); b = nb([cm([{'b': 1}, {'a': 1}])])
d = run(a, b, metadata=False)
if d:
    bad.append(('metadata ignored, only output metadata differ', d))

if bad:
    print("VIOLATION C14: non-empty diff although only an ignored category differs")
    for what, d in bad:
        print(" *", what, "->", d)
    sys.exit(1)
print("ok")
