"""C14/C16: with details ignored (nbdiff -D) the differ still reports a change of
/nbformat_minor, which the printer (should_ignore_path: '/nbformat' -> details)
and nbshow ('notebook format' line only with details) both treat as a detail.
Result: a non-empty diff for notebooks that differ only in a detail, and nbdiff
prints the three header lines and then nothing."""
import io, sys
import nbformat
from nbformat.v4 import new_notebook
from nbdime.diffing.notebooks import diff_notebooks, set_notebook_diff_targets, reset_notebook_differ
from nbdime.prettyprint import PrettyPrintConfig, pretty_print_notebook_diff

a = new_notebook(); a.nbformat_minor = 4
b = new_notebook(); b.nbformat_minor = 5
nbformat.validate(a); nbformat.validate(b)

reset_notebook_differ()
set_notebook_diff_targets(details=False)
try:
    d = diff_notebooks(a, b)
finally:
    reset_notebook_differ()

class Inc:
    sources = outputs = attachments = metadata = id = True
    details = False
out = io.StringIO()
cfg = PrettyPrintConfig(out=out, include=Inc, use_color=False)
pretty_print_notebook_diff('a', 'b', a, d, cfg)
assert cfg.should_ignore_path('/nbformat_minor'), "printer no longer files nbformat_minor under details"
if d or out.getvalue():
    print("VIOLATION C14: details ignored, only nbformat_minor differs, diff =", d)
    print("printed (header only, no entry):", repr(out.getvalue()))
    sys.exit(1)
print("ok")
