"""C14/C16: a call of nbdiffapp.main with ignore flags (here -S) configures the
module-global differ table (diffing.notebooks.notebook_differs).  A following call
in the same process WITHOUT flags does not reset it (args.process_diff_flags only
calls set_notebook_diff_targets when a flag was given), so the second call
silently ignores sources too: an existing source change gives no output at all."""
import contextlib, io, os, sys, tempfile
import nbformat
from nbformat.v4 import new_notebook, new_code_cell
from nbdime import nbdiffapp

td = tempfile.mkdtemp()
fa, fb = os.path.join(td, 'a.ipynb'), os.path.join(td, 'b.ipynb')
for fn, src in ((fa, 'x = 1'), (fb, 'x = 2')):
    nb = new_notebook(cells=[new_code_cell(source=src)])
    nb.cells[0]['id'] = 'c0'
    nbformat.validate(nb)
    with open(fn, 'w') as f:
        nbformat.write(nb, f)


def go(args):
    buf = io.StringIO()
    with contextlib.redirect_stdout(buf):
        rc = nbdiffapp.main(args + [fa, fb])
    assert rc == 0
    return buf.getvalue()

first = go(['--no-color'])
assert 'x = 2' in first
assert go(['--no-color', '-S']) == ''          # sources ignored: nothing to show, fine
third = go(['--no-color'])                     # same command line as the first call
if third != first:
    print("VIOLATION C14/C16: identical call prints %r after an -S call (expected the source diff)" % third)
    sys.exit(1)
print("ok")
