r"""C16: rendering never fails.  external_diff_render removes every line matching
'^\\ No newline at end of file' from git's output and asserts that there were at
most two.  With --color-words git prints unchanged text lines without any prefix,
so text lines that literally read '\ No newline at end of file' (e.g. the captured
output of `!git diff` in a notebook) are taken for git's marker: one or two of
them silently vanish from the rendering, three raise AssertionError."""
import io, shutil, sys
import nbformat
from nbformat.v4 import new_notebook, new_code_cell, new_output
from nbdime.diffing.notebooks import diff_notebooks
from nbdime.prettyprint import PrettyPrintConfig, pretty_print_notebook_diff

if not shutil.which('git'):
    print("skip: needs git on PATH"); sys.exit(0)

M = '\\ No newline at end of file\n'
# captured `git diff` output of two one-line files without final newline;
# between two runs only the blob hash in the second 'index' line changed
text_a = ('@@ -1 +1 @@\n-a\n' + M + '+b\n' + M +
          'index 1111111..2222222 100644\n' +
          '@@ -1 +1 @@\n-c\n' + M + '+d\n' + M)
text_b = text_a.replace('2222222', '3333333')


def nb(t):
    n = new_notebook(cells=[new_code_cell(source='!git diff', outputs=[
        new_output('stream', name='stdout', text=t)])])
    n.cells[0]['id'] = 'c0'
    nbformat.validate(n)
    return n

a, b = nb(text_a), nb(text_b)
d = diff_notebooks(a, b)
out = io.StringIO()
try:
    pretty_print_notebook_diff('a', 'b', a, d, PrettyPrintConfig(
        out=out, use_color=True, color_words=True, use_git=True))
except AssertionError as e:
    print("VIOLATION C16: nbdiff --color-words raised AssertionError: %s" % e)
    sys.exit(1)
print("ok")
