"""C14/C16: ignore categories can be given as flags or in the config file.
A config file that switches one category off ({"NbDiff": {"outputs": false}},
documented in docs/source/config.rst) makes every positive flag crash:
`nbdiff -s a b` dies with an uncaught argparse.ArgumentError traceback
("Arguments must either all be negative or all positive"), although the user
gave a single, consistent flag.  Same for nbshow with {"NbShow": {...}}.
args.py: ConfigBackedParser.parse_known_args turns config values into argparse
defaults, process_exclusive_ignorables cannot tell them from flags."""
import json, os, subprocess, sys, tempfile
import nbformat
from nbformat.v4 import new_notebook, new_code_cell

td = tempfile.mkdtemp()
for name, src in (('a.ipynb', 'x = 1'), ('b.ipynb', 'x = 2')):
    nb = new_notebook(cells=[new_code_cell(source=src)])
    nbformat.validate(nb)
    with open(os.path.join(td, name), 'w') as f:
        nbformat.write(nb, f)
with open(os.path.join(td, 'nbdime_config.json'), 'w') as f:
    json.dump({"NbDiff": {"outputs": False}, "NbShow": {"outputs": False}}, f)

env = dict(os.environ)
env['PYTHONPATH'] = os.pathsep.join(p for p in sys.path if p)
env['JUPYTER_CONFIG_DIR'] = td
env['JUPYTER_CONFIG_PATH'] = td


def run(prog, mod, args):
    code = ("import sys; sys.argv[0]=%r; from %s import main; sys.exit(main(sys.argv[1:]))" % (prog, mod))
    return subprocess.run([sys.executable, '-c', code] + args, cwd=td, env=env,
                          capture_output=True, text=True, timeout=25)

bad = []
# sanity: the config alone works, and hides nothing but outputs
p = run('nbdiff', 'nbdime.nbdiffapp', ['--no-color', 'a.ipynb', 'b.ipynb'])
assert p.returncode == 0 and 'x = 2' in p.stdout, (p.stdout, p.stderr)
p = run('nbdiff', 'nbdime.nbdiffapp', ['--no-color', '-s', 'a.ipynb', 'b.ipynb'])
if p.returncode != 0 or 'Traceback' in p.stderr:
    bad.append(('nbdiff -s with config outputs=false', p.stderr[-400:]))
p = run('nbshow', 'nbdime.nbshowapp', ['-s', 'a.ipynb'])
if p.returncode != 0 or 'Traceback' in p.stderr:
    bad.append(('nbshow -s with config outputs=false', p.stderr[-400:]))
if bad:
    print("VIOLATION C14/C16: consistent flag + config crashes")
    for what, err in bad:
        print(" *", what); print(err)
    sys.exit(1)
print("ok")
