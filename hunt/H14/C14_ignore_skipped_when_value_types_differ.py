"""C14: a path that is configured as ignored must not be reported.
diff_dicts (nbdime/diffing/generic.py) only consults the differ configured for
a key (diff_ignore) when type(avalue) is type(bvalue); otherwise it falls to the
'replace' branch, which ignores the configuration.  Two consequences:
 (1) an 'Ignore' config mapping {"/cells/*/execution_count": true} hides 1 -> 2
     but not null -> 2 (the usual change: unexecuted -> executed);
 (2) with --ignore-metadata, metadata that is a NotebookNode on one side and a
     plain dict on the other (a notebook from json.load / built in code, or the
     result of merge_notebooks, which mixes both) is reported as replaced."""
import sys, copy, json
import nbformat
from nbformat.v4 import new_notebook, new_code_cell
from nbdime.diffing.notebooks import (
    diff_notebooks, set_notebook_diff_targets, set_notebook_diff_ignores, reset_notebook_differ)


def nb(ec, md):
    c = new_code_cell(source='x', execution_count=ec, metadata=md)
    n = new_notebook(cells=[c]); n.nbformat_minor = 4
    n.cells[0].pop('id', None)
    nbformat.validate(n)
    return n

bad = []

# (1) what ConfigBackedParser does for {"NbDiff": {"Ignore": {"/cells/*/execution_count": true}}}
reset_notebook_differ()
set_notebook_diff_ignores({"/cells/*/execution_count": True})
try:
    d_int = diff_notebooks(nb(1, {}), nb(2, {}))
    d_none = diff_notebooks(nb(None, {}), nb(2, {}))
finally:
    reset_notebook_differ()
assert d_int == [], d_int          # the ignore does work for int -> int
if d_none:
    bad.append(('Ignore {"/cells/*/execution_count": true}, null -> 2', d_none))

# (2) --ignore-metadata, NotebookNode vs plain dict
a = nb(None, {'tags': ['a']})
b = json.loads(json.dumps(nb(None, {'tags': ['b']})))   # same structure as plain dicts
nbformat.validate(b)
reset_notebook_differ()
set_notebook_diff_targets(metadata=False)
try:
    d = diff_notebooks(a, b)
finally:
    reset_notebook_differ()
if d:
    bad.append(('--ignore-metadata, NotebookNode vs dict', d))

if bad:
    print("VIOLATION C14: change inside an ignored path is reported")
    for what, d in bad:
        print(" *", what, "->", d)
    sys.exit(1)
print("ok")
