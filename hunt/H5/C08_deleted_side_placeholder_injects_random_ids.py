"""C08: with a missing-file placeholder (file deleted on one side, /dev/null) and an ordinary
nbformat 4.4 notebook (cells without ids) the placeholder is read as
nbformat.v4.new_notebook(), i.e. nbformat_minor 5.  The merge takes that as a one-sided change
4 -> 5, so the library result is a 4.5 notebook whose cells have no id; nbformat.write() then
invents RANDOM ids while writing.  The written file differs from merge_notebooks() and from
run to run.
Run: PYTHONPATH=<tree> python C08_deleted_side_placeholder_injects_random_ids.py
"""
import json, logging, os, subprocess, sys, tempfile, warnings
import nbformat
from nbformat import v4

warnings.simplefilter("ignore")
logging.disable(logging.CRITICAL)
from nbdime import nbmergeapp
from nbdime.merging.notebooks import merge_notebooks
from nbdime.utils import read_notebook, EXPLICIT_MISSING_FILE


def nb(src):
    n = v4.new_notebook()
    n.nbformat_minor = 4
    c = v4.new_code_cell(src)
    c.pop("id", None)
    n.cells = [c]
    nbformat.validate(n)
    return n


td = tempfile.mkdtemp()
fb, fl = os.path.join(td, "base.ipynb"), os.path.join(td, "local.ipynb")
nbformat.write(nb("x = 1\n"), fb)
nbformat.write(nb("x = 2\n"), fl)
fr = EXPLICIT_MISSING_FILE        # deleted on the remote side

args = nbmergeapp._build_arg_parser().parse_args([fb, fl, fr])
lib, dec = merge_notebooks(read_notebook(fb, on_null="minimal"), read_notebook(fl, on_null="minimal"),
                           read_notebook(fr, on_null="minimal"), args)
lib = json.loads(json.dumps(lib))

outs = []
for i in range(2):
    out = os.path.join(td, "out%d.ipynb" % i)
    subprocess.run([sys.executable, "-W", "ignore", "-m", "nbdime.nbmergeapp", fb, fl, fr, "--out", out],
                   capture_output=True, text=True)
    outs.append(json.load(open(out)))

problems = []
lib_ids = [c.get("id") for c in lib["cells"]]
out_ids = [[c.get("id") for c in o["cells"]] for o in outs]
if (lib["nbformat"], lib["nbformat_minor"]) != (4, 4):
    problems.append("inputs are nbformat 4.4, library merge result claims %d.%d with cell ids %r"
                    % (lib["nbformat"], lib["nbformat_minor"], lib_ids))
if out_ids[0] != lib_ids:
    problems.append("written file has cell ids %r, library merge result has %r" % (out_ids[0], lib_ids))
if out_ids[0] != out_ids[1]:
    problems.append("two identical runs wrote different files: ids %r vs %r" % (out_ids[0], out_ids[1]))
if problems:
    print("C08 VIOLATED (deleted-on-one-side placeholder):")
    for x in problems:
        print("  -", x)
    sys.exit(1)
print("ok")
sys.exit(0)
