"""C07: default merge crashes (AssertionError 'cell types cannot differ', strategies.py
resolve_strategy_inline_recurse) when both sides insert a "similar" cell (same id / same
source) at the same place with different cell_type.  Two shapes:
 (1) notebook added on both branches (empty base), one branch turned a code cell into markdown;
 (2) both branches move cell B to the top, one of them also converts it to markdown.
No merged notebook is produced, so neither side's text survives.
Run: PYTHONPATH=<tree> python C07_same_cell_added_with_different_type_crash.py
"""
import logging, sys
import nbformat
from nbformat import v4

logging.disable(logging.CRITICAL)
from nbdime.merging.notebooks import merge_notebooks

MK = {"code": v4.new_code_cell, "markdown": v4.new_markdown_cell, "raw": v4.new_raw_cell}


def cell(t, src, cid):
    c = MK[t](src)
    c["id"] = cid
    return c


def nb(cells):
    n = v4.new_notebook()
    n.cells = cells
    nbformat.validate(n)
    return n


cases = {
    "added on both sides, type differs": (
        nb([]),
        nb([cell("code", "x = 1\ny = 2\n", "a")]),
        nb([cell("markdown", "x = 1\ny = 2\n", "a")])),
    "both move B up, local also converts it": (
        nb([cell("code", "a = 1\n", "A"), cell("code", "b = 1\nb2 = 2\n", "B")]),
        nb([cell("markdown", "b = 1\nb2 = 2\n", "B"), cell("code", "a = 1\n", "A")]),
        nb([cell("code", "b = 1\nb2 = 2\n", "B"), cell("code", "a = 1\n", "A")])),
}
bad = []
for name, (b, l, r) in cases.items():
    try:
        merged, dec = merge_notebooks(b, l, r, None)
    except Exception as e:  # noqa
        bad.append("%s: %s: %s" % (name, type(e).__name__, e))
        continue
    text = [ln for c in merged["cells"] for ln in c["source"].splitlines()]
    for c in l["cells"] + r["cells"]:
        for ln in c["source"].splitlines():
            if ln not in text:
                bad.append("%s: line %r lost" % (name, ln))
if bad:
    print("C07 VIOLATED (merge of a valid triple raises instead of producing a conflict):")
    for x in bad:
        print("  -", x)
    sys.exit(1)
print("ok")
sys.exit(0)
