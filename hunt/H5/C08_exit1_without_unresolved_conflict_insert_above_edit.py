"""C08 (interpretation dependent): local inserts a new cell directly ABOVE a cell whose source
remote edits.  Both changes are applied in full, the merged notebook contains no conflict
marker, no nbdime-conflicts record and nothing for the user to resolve - but the decision
is flagged conflict=True ("Insert before patch or remove: apply both but mark as conflicted",
merging/generic.py _merge_lists, chunk types A/P, P/A, A/R, R/A) so nbmerge and the git driver
exit 1 and git reports CONFLICT.  Inserting the same cell BELOW the edited cell exits 0.
Run: PYTHONPATH=<tree> python C08_exit1_without_unresolved_conflict_insert_above_edit.py
"""
import json, os, re, subprocess, sys, tempfile
import nbformat
from nbformat import v4


def cell(cid, src):
    c = v4.new_code_cell(src)
    c["id"] = cid
    return c


def nb(cells):
    n = v4.new_notebook()
    n.cells = cells
    nbformat.validate(n)
    return n


def run(b, l, r):
    td = tempfile.mkdtemp()
    fs = []
    for name, n in (("b", b), ("l", l), ("r", r)):
        fs.append(os.path.join(td, name + ".ipynb"))
        nbformat.write(n, fs[-1])
    out = os.path.join(td, "o.ipynb")
    p = subprocess.run([sys.executable, "-m", "nbdime.nbmergeapp"] + fs + ["--out", out], capture_output=True, text=True)
    return p.returncode, nbformat.read(out, as_version=4)


base = nb([cell("A", "a = 1\n")])
remote = nb([cell("A", "a = 2\n")])
above = nb([cell("N", "new = 0\n"), cell("A", "a = 1\n")])
below = nb([cell("A", "a = 1\n"), cell("N", "new = 0\n")])

rc_above, m_above = run(base, above, remote)
rc_below, m_below = run(base, below, remote)
expected = [("N", "new = 0\n"), ("A", "a = 2\n")]
got = [(c["id"], c["source"]) for c in m_above.cells]
text = json.dumps(m_above)
has_marker = bool(re.search(r"<{7}|>{7}|={7}|nbdime-conflicts", text))
if rc_above != 0 and got == expected and not has_marker:
    print("C08 VIOLATED: exit status %d although no unresolved conflict remains:" % rc_above)
    print("  merged cells %r contain both sides' changes and no conflict marker/record;" % got)
    print("  the mirror case (insert below the edited cell) exits %d" % rc_below)
    sys.exit(1)
print("ok")
sys.exit(0)
