"""C07: a NUL character inside a cell source makes the external text-merge tool refuse the
input ("binary file"); nbdime ignores the failure:
  * with `git merge-file`  -> IndexError in merge_render_with_git (merge crashes, no result)
  * with `diff3 -m`        -> the whole source of the cell is replaced by '' (all lines dropped)
The edits of the two sides do not even overlap.
Run: PYTHONPATH=<tree> python C07_nul_char_source_external_renderer.py
"""
import logging, os, shutil, sys, tempfile, copy
import nbformat
from nbformat import v4

logging.disable(logging.CRITICAL)
from nbdime.merging.notebooks import merge_notebooks


def nb(src):
    n = v4.new_notebook()
    c = v4.new_code_cell(src)
    c["id"] = "cell-1"
    n.cells = [c]
    nbformat.validate(n)
    # also valid as a JSON file round trip
    assert nbformat.reads(nbformat.writes(n), as_version=4) == n
    return n


base = nb("s = 'a\x00b'\nx = 1\ny = 2\nz = 3\n")
local = nb("s = 'a\x00b'\nx = 10\ny = 2\nz = 3\n")     # edits line 2
remote = nb("s = 'a\x00b'\nx = 1\ny = 2\nz = 30\n")    # edits line 4

orig_path = os.environ.get("PATH", "")
bindir = tempfile.mkdtemp()
for tool in ("diff3", "diff"):
    p = shutil.which(tool)
    if p:
        os.symlink(p, os.path.join(bindir, tool))

failures = []
for name, path in (("git merge-file", orig_path), ("diff3", bindir)):
    os.environ["PATH"] = path
    if name == "git merge-file" and not shutil.which("git"):
        continue
    if name == "diff3" and not shutil.which("diff3"):
        continue
    try:
        merged, decisions = merge_notebooks(copy.deepcopy(base), copy.deepcopy(local), copy.deepcopy(remote), None)
    except Exception as e:  # noqa
        failures.append("%s: merge of a valid triple crashed: %s: %s" % (name, type(e).__name__, e))
        continue
    text = "\n".join(c["source"] for c in merged["cells"])
    missing = [l for l in ("x = 10", "z = 30") if l not in text.splitlines()]
    if missing:
        failures.append("%s: added source lines %r are missing from the merged notebook; merged source is %r"
                        % (name, missing, text))
os.environ["PATH"] = orig_path
shutil.rmtree(bindir, ignore_errors=True)

if failures:
    print("C07 VIOLATED (NUL character in source, external renderer failure ignored):")
    for f in failures:
        print("  -", f)
    sys.exit(1)
print("ok")
sys.exit(0)
