"""C07 (borderline): whenever both sides edit the same cell source and an external renderer
(git merge-file / diff3) is used, external_merge_render() does output.replace('\\r\\n', '\\n')
on the merged text.  Every CRLF of the cell - in lines added by a side and in lines nobody
touched - silently becomes LF, although the edits do not conflict (exit status 0, no marker).
Run: PYTHONPATH=<tree> python C07_crlf_line_endings_rewritten.py
"""
import logging, shutil, sys
import nbformat
from nbformat import v4

logging.disable(logging.CRITICAL)
from nbdime.merging.notebooks import merge_notebooks

if not (shutil.which("git") or shutil.which("diff3")):
    print("no external renderer available")
    sys.exit(0)


def nb(src):
    n = v4.new_notebook()
    c = v4.new_code_cell(src)
    c["id"] = "cell-1"
    n.cells = [c]
    nbformat.validate(n)
    return n


base = nb("a = 1\r\nb = 2\r\nc = 3\r\nd = 4\r\n")
local = nb("a = 10\r\nb = 2\r\nc = 3\r\nd = 4\r\n")
remote = nb("a = 1\r\nb = 2\r\nc = 3\r\nd = 40\r\n")
merged, dec = merge_notebooks(base, local, remote, None)
src = merged["cells"][0]["source"]
expected = "a = 10\r\nb = 2\r\nc = 3\r\nd = 40\r\n"
conflict = any(d.conflict for d in dec)
# lines in the nbformat sense (separated by \n only)
got = src.split("\n")
lost = [l for l in ("a = 10\r", "d = 40\r") if l not in got]
invented = [l for l in got if l and l not in expected.split("\n")]
if lost or invented:
    print("C07 VIOLATED (CR characters silently removed from the merged source):")
    print("  conflict reported: %s" % conflict)
    print("  merged source  : %r" % src)
    print("  expected source: %r" % expected)
    print("  added lines missing (split on \\n): %r; lines found in no input: %r" % (lost, invented))
    sys.exit(1)
print("ok")
sys.exit(0)
