"""C07: when the text merge is rendered by `diff3 -m` (git not on PATH) and a source does not
end in a newline (the normal case for notebook cells), diff3 glues the conflict markers onto
the last text line: 'b = 2||||||| base', 'c = 3>>>>>>> remote'.  The added lines no longer
exist as lines of the merged source and lines that exist in no input are fabricated.
Run: PYTHONPATH=<tree> python C07_diff3_missing_trailing_newline.py
"""
import logging, os, re, shutil, sys, tempfile
import nbformat
from nbformat import v4

logging.disable(logging.CRITICAL)
from nbdime.merging.notebooks import merge_notebooks

if not shutil.which("diff3") or not shutil.which("diff"):
    print("diff3 not available, cannot exercise this configuration")
    sys.exit(0)


def nb(src):
    n = v4.new_notebook()
    c = v4.new_code_cell(src)
    c["id"] = "cell-1"
    n.cells = [c]
    nbformat.validate(n)
    return n


base, local, remote = nb("a = 1"), nb("b = 2"), nb("c = 3")   # no trailing newline

orig_path = os.environ.get("PATH", "")
bindir = tempfile.mkdtemp()
for tool in ("diff3", "diff"):
    os.symlink(shutil.which(tool), os.path.join(bindir, tool))
os.environ["PATH"] = bindir          # no git here -> nbdime falls back to diff3
try:
    merged, decisions = merge_notebooks(base, local, remote, None)
finally:
    os.environ["PATH"] = orig_path
    shutil.rmtree(bindir, ignore_errors=True)

lines = merged["cells"][0]["source"].splitlines()
marker = re.compile(r"^(<{7}|={7}|>{7}|\|{7})( .*)?$")
inputs = {"a = 1", "b = 2", "c = 3"}
problems = []
for added in ("b = 2", "c = 3"):
    if added not in lines:
        problems.append("added line %r is not a line of the merged source" % added)
for l in lines:
    if l.strip() and l not in inputs and not marker.match(l):
        problems.append("merged line %r comes from no input and is not a conflict marker" % l)
if problems:
    print("C07 VIOLATED (diff3 renderer, source without trailing newline):")
    print("  merged source: %r" % merged["cells"][0]["source"])
    for p in problems:
        print("  -", p)
    sys.exit(1)
print("ok")
sys.exit(0)
