"""C08: a JSON number that overflows a double (1e400 - well-formed JSON, valid against the
notebook schema) is read as float('inf'); nbmerge exits 0 and writes the bare token
`Infinity`, so the output file is not well-formed JSON (strict parsers, e.g. JSON.parse in
JupyterLab, reject it).
Run: PYTHONPATH=<tree> python C08_overflowing_float_written_as_Infinity.py
"""
import json, os, subprocess, sys, tempfile
import nbformat

TEMPLATE = ('{"cells":[{"cell_type":"code","execution_count":null,"id":"a","metadata":{"scale":1e400},'
            '"outputs":[],"source":"%s"}],"metadata":{},"nbformat":4,"nbformat_minor":5}')


def strict_load(text):
    def bad(c):
        raise ValueError("non-JSON constant %s" % c)
    return json.loads(text, parse_constant=bad)


td = tempfile.mkdtemp()
fn = {}
for name, src in (("base", "x = 1"), ("local", "x = 2"), ("remote", "x = 1")):
    fn[name] = os.path.join(td, name + ".ipynb")
    open(fn[name], "w").write(TEMPLATE % src)
    strict_load(open(fn[name]).read())                               # input is strict JSON
    nbformat.validate(nbformat.read(fn[name], as_version=4))         # and a valid notebook
out = os.path.join(td, "out.ipynb")
p = subprocess.run([sys.executable, "-m", "nbdime.nbmergeapp", fn["base"], fn["local"], fn["remote"], "--out", out],
                   capture_output=True, text=True)
if p.returncode == 0:
    try:
        strict_load(open(out).read())
    except ValueError as e:
        print("C08 VIOLATED: nbmerge exited 0 but the output is not well-formed JSON: %s" % e)
        sys.exit(1)
print("ok (exit status %d)" % p.returncode)
sys.exit(0)
