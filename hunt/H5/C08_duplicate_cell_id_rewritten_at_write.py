"""C08: the file written by nbmerge / the git driver is not the notebook the library merge
returns.  When remote moves a cell and local edits that cell (here: its metadata), the merge
result contains the cell twice with the same id.  nbformat.write() then "repairs" the
duplicate id with a fresh RANDOM id while serialising (validate() mutates the notebook), so
the output differs from merge_notebooks() and from one run to the next.
Run: PYTHONPATH=<tree> python C08_duplicate_cell_id_rewritten_at_write.py
"""
import json, logging, os, subprocess, sys, tempfile, warnings
import nbformat
from nbformat import v4

warnings.simplefilter("ignore")
logging.disable(logging.CRITICAL)
from nbdime import nbmergeapp
from nbdime.merging.notebooks import merge_notebooks
from nbdime.utils import read_notebook


def cell(cid, src, **md):
    c = v4.new_code_cell(src)
    c["id"] = cid
    c.metadata.update(md)
    return c


def nb(cells):
    n = v4.new_notebook()
    n.cells = cells
    nbformat.validate(n)
    return n


base = nb([cell("A", "a = 1\n"), cell("B", "b = 1\nb2 = 2\n")])
local = nb([cell("A", "a = 1\n"), cell("B", "b = 1\nb2 = 2\n", tags=["keep"])])   # edits B's metadata
remote = nb([cell("B", "b = 1\nb2 = 2\n"), cell("A", "a = 1\n")])                # moves B up

td = tempfile.mkdtemp()
fn = {}
for name, n in (("base", base), ("local", local), ("remote", remote)):
    fn[name] = os.path.join(td, name + ".ipynb")
    nbformat.write(n, fn[name])

args = nbmergeapp._build_arg_parser().parse_args([fn["base"], fn["local"], fn["remote"]])
lib, decisions = merge_notebooks(*(read_notebook(fn[k], on_null="minimal") for k in ("base", "local", "remote")), args)
lib_ids = [c["id"] for c in lib["cells"]]

outs = []
for i in range(2):
    out = os.path.join(td, "out%d.ipynb" % i)
    p = subprocess.run([sys.executable, "-W", "ignore", "-m", "nbdime.nbmergeapp", fn["base"], fn["local"], fn["remote"],
                        "--out", out], capture_output=True, text=True)
    outs.append([c["id"] for c in json.load(open(out))["cells"]])

problems = []
if outs[0] != lib_ids:
    problems.append("cell ids in the written file %r differ from the library merge result %r" % (outs[0], lib_ids))
if outs[0] != outs[1]:
    problems.append("two identical runs wrote different notebooks: %r vs %r" % (outs[0], outs[1]))
if problems:
    print("C08 VIOLATED (output file is not the notebook the library merge returns):")
    for x in problems:
        print("  -", x)
    sys.exit(1)
print("ok")
sys.exit(0)
