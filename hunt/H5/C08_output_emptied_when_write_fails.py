"""C08: the output is opened with mode "w" (truncating it) before the merged text is
encoded/written (nbmergeapp.main_merge -> nbformat.write -> Path.open("w"); f.write).  Any
failure after the open leaves an EMPTY file instead of the previous content.  Deterministic
trigger without fault injection: a string with an unpaired surrogate (JSON escape "\\ud83d",
e.g. a truncated emoji in an output) - reading, diffing and merging succeed, f.write raises
UnicodeEncodeError after the truncation.  For the git merge driver the output is the local
file (%A): the user's version is wiped and git then copies the empty file into the work tree.
Run: PYTHONPATH=<tree> python C08_output_emptied_when_write_fails.py
"""
import json, os, subprocess, sys, tempfile
import nbformat
from nbformat import v4


def nb(s1, s2):
    n = v4.new_notebook()
    a = v4.new_code_cell(s1)
    a["id"] = "a"
    a.outputs = [v4.new_output("stream", name="stdout", text="half an emoji: \ud83d\n")]
    b = v4.new_code_cell(s2)
    b["id"] = "b"
    n.cells = [a, b]
    nbformat.validate(n)
    return n


td = tempfile.mkdtemp()
files = {}
for name, n in (("base", nb("x = 1\n", "y = 1\n")),
                ("local", nb("x = 2\n", "y = 1\n")),     # edits first cell
                ("remote", nb("x = 1\n", "y = 2\n"))):   # edits second cell -> clean merge
    p = files[name] = os.path.join(td, name + ".ipynb")
    with open(p, "w", encoding="ascii") as f:
        json.dump(n, f, ensure_ascii=True, indent=1)
    json.loads(open(p).read())                                 # well-formed JSON
    nbformat.validate(nbformat.read(p, as_version=4))          # schema-valid notebook

problems = []
# 1. nbmerge --out
out = os.path.join(td, "out.ipynb")
previous = "PREVIOUS CONTENT OF THE OUTPUT LOCATION\n"
open(out, "w").write(previous)
p = subprocess.run([sys.executable, "-m", "nbdime.nbmergeapp", files["base"], files["local"], files["remote"],
                    "--out", out], capture_output=True, text=True)
now = open(out).read()
if p.returncode == 0:
    try:
        json.loads(now)
    except ValueError:
        problems.append("nbmerge reported success but output is not JSON")
elif now != previous:
    problems.append("nbmerge failed (exit %d, %s) but the output file was changed: %d bytes now, content %r"
                    % (p.returncode, p.stderr.strip().splitlines()[-1][:90], len(now), now[:40]))
# 2. git merge driver: output is the local file
before = open(files["local"]).read()
p = subprocess.run([sys.executable, "-m", "nbdime.vcs.git.mergedriver", "merge", files["base"], files["local"],
                    files["remote"], "7", "nb.ipynb"], capture_output=True, text=True)
now = open(files["local"]).read()
if p.returncode != 0 and now != before:
    problems.append("git merge driver failed (exit %d) but the local file (%%A) was changed: %d bytes before, %d bytes now"
                    % (p.returncode, len(before), len(now)))
if problems:
    print("C08 VIOLATED (failed run does not leave the output location untouched):")
    for x in problems:
        print("  -", x)
    sys.exit(1)
print("ok")
sys.exit(0)
