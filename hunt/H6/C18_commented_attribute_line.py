"""
C18: the attributes file already holds text containing "diff=jupyternotebook"
that is NOT an effective rule -- here nbdime's own line, commented out by the
user to switch the integration off for a while.  `config --enable` tests
`'diff=jupyternotebook' in f.read()` (a substring test on the whole file),
decides "already written" and adds no attributes line; the driver is configured
but git never routes *.ipynb to it.  Same for merge=jupyternotebook.
"""
import io, json, os, shutil, subprocess, sys, tempfile

HERE = os.path.dirname(os.path.abspath(__file__))
NAME = os.path.splitext(os.path.basename(__file__))[0]


def scratch():
    """Fresh scratch directory (next to this script if possible), with an
    isolated HOME / git configuration so the real user config is never touched."""
    base = os.path.join(HERE, 'work')
    try:
        os.makedirs(base, exist_ok=True)
        d = os.path.join(base, NAME)
        shutil.rmtree(d, ignore_errors=True)
        os.makedirs(d)
    except OSError:
        d = tempfile.mkdtemp(prefix=NAME)
    d = os.path.realpath(d)
    home = os.path.join(d, 'home')
    os.makedirs(home)
    open(os.path.join(home, 'gitconfig'), 'w').close()
    os.environ.update(
        HOME=home, XDG_CONFIG_HOME=os.path.join(home, 'xdg'),
        GIT_CONFIG_GLOBAL=os.path.join(home, 'gitconfig'), GIT_CONFIG_NOSYSTEM='1',
        GIT_AUTHOR_NAME='t', GIT_AUTHOR_EMAIL='t@example.com',
        GIT_COMMITTER_NAME='t', GIT_COMMITTER_EMAIL='t@example.com')
    for k in ('GIT_DIR', 'GIT_WORK_TREE', 'GIT_INDEX_FILE'):
        os.environ.pop(k, None)
    return d


def git(*args, cwd):
    p = subprocess.run(['git'] + list(args), cwd=cwd, stdout=subprocess.PIPE, stderr=subprocess.PIPE)
    if p.returncode:
        raise RuntimeError('git %r failed: %s' % (args, p.stderr.decode('utf8', 'replace')))
    return p.stdout.decode('utf8', 'surrogateescape')

import types


def load_tools():
    """Import the four git integration modules.  The difftool/mergetool modules
    import nbdime's web front-ends at module level; if the optional web
    dependencies (jinja2, jupyter_server, ...) are missing, stub those
    front-ends -- they play no role in the `config` sub-commands tested here."""
    try:
        import nbdime.webapp.nbdifftool, nbdime.webapp.nbmergetool  # noqa
    except ImportError:
        import nbdime  # noqa
        for n in list(sys.modules):
            if n.startswith('nbdime.webapp'):
                del sys.modules[n]
        pkg = types.ModuleType('nbdime.webapp')
        pkg.__path__ = []
        sys.modules['nbdime.webapp'] = pkg
        for n in ('nbdifftool', 'nbmergetool'):
            m = types.ModuleType('nbdime.webapp.' + n)
            m.build_arg_parser = lambda parser=None: parser
            m.main_parsed = lambda opts: 0
            sys.modules['nbdime.webapp.' + n] = m
            setattr(pkg, n, m)
    from nbdime.vcs.git import diffdriver, mergedriver, difftool, mergetool
    return diffdriver, mergedriver, difftool, mergetool


def run_in(cwd, func, args):
    import contextlib
    old = os.getcwd()
    os.chdir(cwd)
    buf = io.StringIO()
    try:
        with contextlib.redirect_stderr(buf), contextlib.redirect_stdout(buf):
            rc = func(args)
    finally:
        os.chdir(old)
    return rc, buf.getvalue()


def attr_of(repo, attr, path='x.ipynb'):
    out = git('check-attr', attr, '--', path, cwd=repo)
    return out.strip().rsplit(': ', 1)[-1]

def main():
    d = scratch()
    diffdriver, mergedriver, difftool, mergetool = load_tools()
    rc = 0
    for scope in ('repo', 'global'):
        repo = os.path.join(d, 'repo_' + scope)
        os.makedirs(repo)
        git('init', '-q', cwd=repo)
        if scope == 'repo':
            attrs = os.path.join(repo, '.gitattributes')
            flag = []
        else:
            attrs = os.path.join(os.environ['XDG_CONFIG_HOME'], 'git', 'attributes')
            os.makedirs(os.path.dirname(attrs))
            flag = ['--global']
        before = '*.txt text\n#*.ipynb\tdiff=jupyternotebook\n#*.ipynb\tmerge=jupyternotebook\n'
        with open(attrs, 'w') as f:
            f.write(before)
        assert attr_of(repo, 'diff') == 'unspecified' and attr_of(repo, 'merge') == 'unspecified'
        for mod in (diffdriver, mergedriver):
            r, out = run_in(repo, mod.main, ['config', '--enable'] + flag)
            assert r == 0, (r, out)
        got = (attr_of(repo, 'diff'), attr_of(repo, 'merge'))
        after = open(attrs).read()
        if got != ('jupyternotebook', 'jupyternotebook'):
            print('[%s scope] after enabling both drivers: git check-attr x.ipynb -> diff: %s, merge: %s '
                  '(expected jupyternotebook); attributes file unchanged: %s'
                  % (scope, got[0], got[1], after == before))
            rc = 1
        if not after.startswith(before):
            print('[%s scope] existing attributes content not kept' % scope)
            rc = 1
    return rc


sys.exit(main())
