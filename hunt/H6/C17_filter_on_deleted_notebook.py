"""
C17: a clean filter is configured for notebooks (the usual nbstripout-style
setup: `*.ipynb filter=<name>` + filter.<name>.clean) and a tracked notebook
has been deleted from the working tree.  git reports it as deleted.  nbdime
tries to run the filter on the no-longer-existing file *before* its
"missing file -> null file" fallback and dies with FileNotFoundError; no
notebook of the diff is examined.
"""
import io, json, os, shutil, subprocess, sys, tempfile

HERE = os.path.dirname(os.path.abspath(__file__))
NAME = os.path.splitext(os.path.basename(__file__))[0]


def scratch():
    """Fresh scratch directory (next to this script if possible), with an
    isolated HOME / git configuration so the real user config is never touched."""
    base = os.path.join(HERE, 'work')
    try:
        os.makedirs(base, exist_ok=True)
        d = os.path.join(base, NAME)
        shutil.rmtree(d, ignore_errors=True)
        os.makedirs(d)
    except OSError:
        d = tempfile.mkdtemp(prefix=NAME)
    d = os.path.realpath(d)
    home = os.path.join(d, 'home')
    os.makedirs(home)
    open(os.path.join(home, 'gitconfig'), 'w').close()
    os.environ.update(
        HOME=home, XDG_CONFIG_HOME=os.path.join(home, 'xdg'),
        GIT_CONFIG_GLOBAL=os.path.join(home, 'gitconfig'), GIT_CONFIG_NOSYSTEM='1',
        GIT_AUTHOR_NAME='t', GIT_AUTHOR_EMAIL='t@example.com',
        GIT_COMMITTER_NAME='t', GIT_COMMITTER_EMAIL='t@example.com')
    for k in ('GIT_DIR', 'GIT_WORK_TREE', 'GIT_INDEX_FILE'):
        os.environ.pop(k, None)
    return d


def git(*args, cwd):
    p = subprocess.run(['git'] + list(args), cwd=cwd, stdout=subprocess.PIPE, stderr=subprocess.PIPE)
    if p.returncode:
        raise RuntimeError('git %r failed: %s' % (args, p.stderr.decode('utf8', 'replace')))
    return p.stdout.decode('utf8', 'surrogateescape')

import nbformat
from nbformat import v4


def nb_text(source):
    """A minimal valid v4.4 notebook (no cell ids) with one code cell."""
    nb = v4.new_notebook()
    nb.cells = [v4.new_code_cell(source)]
    for c in nb.cells:
        c.pop('id', None)
    nb.nbformat_minor = 4
    nbformat.validate(nb)
    return nbformat.writes(nb) + '\n'


def write(repo, path, text):
    full = os.path.join(repo, path)
    os.makedirs(os.path.dirname(full), exist_ok=True)
    with open(full, 'w', encoding='utf8') as f:
        f.write(text)


def examined(base, remote, paths=None, cwd=None, **kw):
    """What nbdime examines: list of (base_text|None, remote_text|None)."""
    from nbdime.gitfiles import changed_notebooks
    from nbdime.utils import EXPLICIT_MISSING_FILE
    old = os.getcwd()
    os.chdir(cwd)
    try:
        res = []
        for fa, fb in changed_notebooks(base, remote, paths, **kw):
            pair = []
            for f in (fa, fb):
                if f == EXPLICIT_MISSING_FILE:
                    pair.append(None)
                else:
                    pair.append(f.read())
                    f.close()
            res.append(tuple(pair))
        if os.getcwd() != cwd:
            print('working directory changed to', os.getcwd())
            sys.exit(1)
        return res
    finally:
        os.chdir(old)


def canon(text):
    return None if text is None else json.dumps(json.loads(text), sort_keys=True)

def main():
    d = scratch()
    repo = os.path.join(d, 'repo')
    os.makedirs(repo)
    git('init', '-q', cwd=repo)
    git('config', 'filter.strip.clean', 'cat', cwd=repo)      # identity filter is enough
    write(repo, '.gitattributes', '*.ipynb filter=strip\n')
    write(repo, 'a.ipynb', nb_text('x = 1'))
    write(repo, 'b.ipynb', nb_text('y = 1'))
    git('add', '-A', cwd=repo)
    git('commit', '-q', '-m', 'c1', cwd=repo)
    os.remove(os.path.join(repo, 'a.ipynb'))                  # plain deletion
    write(repo, 'b.ipynb', nb_text('y = 2'))

    names = git('diff', '--name-status', 'HEAD', cwd=repo).split()
    assert names == ['D', 'a.ipynb', 'M', 'b.ipynb'], names
    expected = [(canon(nb_text('x = 1')), None), (canon(nb_text('y = 1')), canon(nb_text('y = 2')))]
    rc = 0
    from nbdime.gitfiles import GitRefIndex
    for label, base in (('HEAD vs working tree', 'HEAD'), ('index vs working tree', GitRefIndex)):
        try:
            got = [(canon(a), canon(b)) for a, b in examined(base, None, cwd=repo)]
        except Exception as e:
            print('%s: git reports a.ipynb Deleted, b.ipynb Modified; nbdime raised %s: %s'
                  % (label, type(e).__name__, e))
            rc = 1
            continue
        if got != expected:
            print('%s: unexpected pairs %r' % (label, got))
            rc = 1
    return rc


sys.exit(main())
