"""
C17: `nbdiff p1 p2 p3` -- three (or more) path filters and no revision, e.g.
the shell expansion of `nbdiff *.ipynb`.  resolve_diff_args() turns this into
base = remote = None ("HEAD vs working tree, filtered by the paths").  git is
asked for HEAD vs working tree, but because the base ref is None -- which is
also the sentinel for "working tree" -- the base side of every pair is read
from the file on disk instead of from HEAD.  Every modified notebook is thus
compared with itself and reported as unchanged.
"""
import io, json, os, shutil, subprocess, sys, tempfile

HERE = os.path.dirname(os.path.abspath(__file__))
NAME = os.path.splitext(os.path.basename(__file__))[0]


def scratch():
    """Fresh scratch directory (next to this script if possible), with an
    isolated HOME / git configuration so the real user config is never touched."""
    base = os.path.join(HERE, 'work')
    try:
        os.makedirs(base, exist_ok=True)
        d = os.path.join(base, NAME)
        shutil.rmtree(d, ignore_errors=True)
        os.makedirs(d)
    except OSError:
        d = tempfile.mkdtemp(prefix=NAME)
    d = os.path.realpath(d)
    home = os.path.join(d, 'home')
    os.makedirs(home)
    open(os.path.join(home, 'gitconfig'), 'w').close()
    os.environ.update(
        HOME=home, XDG_CONFIG_HOME=os.path.join(home, 'xdg'),
        GIT_CONFIG_GLOBAL=os.path.join(home, 'gitconfig'), GIT_CONFIG_NOSYSTEM='1',
        GIT_AUTHOR_NAME='t', GIT_AUTHOR_EMAIL='t@example.com',
        GIT_COMMITTER_NAME='t', GIT_COMMITTER_EMAIL='t@example.com')
    for k in ('GIT_DIR', 'GIT_WORK_TREE', 'GIT_INDEX_FILE'):
        os.environ.pop(k, None)
    return d


def git(*args, cwd):
    p = subprocess.run(['git'] + list(args), cwd=cwd, stdout=subprocess.PIPE, stderr=subprocess.PIPE)
    if p.returncode:
        raise RuntimeError('git %r failed: %s' % (args, p.stderr.decode('utf8', 'replace')))
    return p.stdout.decode('utf8', 'surrogateescape')

import nbformat
from nbformat import v4


def nb_text(source):
    """A minimal valid v4.4 notebook (no cell ids) with one code cell."""
    nb = v4.new_notebook()
    nb.cells = [v4.new_code_cell(source)]
    for c in nb.cells:
        c.pop('id', None)
    nb.nbformat_minor = 4
    nbformat.validate(nb)
    return nbformat.writes(nb) + '\n'


def write(repo, path, text):
    full = os.path.join(repo, path)
    os.makedirs(os.path.dirname(full), exist_ok=True)
    with open(full, 'w', encoding='utf8') as f:
        f.write(text)


def examined(base, remote, paths=None, cwd=None, **kw):
    """What nbdime examines: list of (base_text|None, remote_text|None)."""
    from nbdime.gitfiles import changed_notebooks
    from nbdime.utils import EXPLICIT_MISSING_FILE
    old = os.getcwd()
    os.chdir(cwd)
    try:
        res = []
        for fa, fb in changed_notebooks(base, remote, paths, **kw):
            pair = []
            for f in (fa, fb):
                if f == EXPLICIT_MISSING_FILE:
                    pair.append(None)
                else:
                    pair.append(f.read())
                    f.close()
            res.append(tuple(pair))
        if os.getcwd() != cwd:
            print('working directory changed to', os.getcwd())
            sys.exit(1)
        return res
    finally:
        os.chdir(old)


def canon(text):
    return None if text is None else json.dumps(json.loads(text), sort_keys=True)

def main():
    d = scratch()
    repo = os.path.join(d, 'repo')
    os.makedirs(repo)
    git('init', '-q', cwd=repo)
    names = ['a.ipynb', 'b.ipynb', 'c.ipynb']
    for n in names:
        write(repo, n, nb_text('x = 1'))
    git('add', '-A', cwd=repo)
    git('commit', '-q', '-m', 'c1', cwd=repo)
    write(repo, 'a.ipynb', nb_text('x = 2'))       # unstaged edit

    raw = git('diff', '--raw', 'HEAD', '--', *names, cwd=repo)
    assert raw.count('\n') == 1 and raw.rstrip().endswith('M\ta.ipynb'), raw

    from nbdime import nbdiffapp
    from nbdime.args import resolve_diff_args
    import contextlib
    old = os.getcwd()
    os.chdir(repo)
    try:
        args = nbdiffapp._build_arg_parser().parse_args(['--no-color'] + names)
        base, remote, paths = resolve_diff_args(args)
        buf = io.StringIO()
        with contextlib.redirect_stdout(buf):
            rc = nbdiffapp.main(['--no-color'] + names)
        out = buf.getvalue()
        # control: the same question with the revision spelled out
        buf2 = io.StringIO()
        with contextlib.redirect_stdout(buf2):
            nbdiffapp.main(['--no-color', 'HEAD'] + names)
        out2 = buf2.getvalue()
        pairs = [(canon(a), canon(b)) for a, b in examined(base, remote, paths, cwd=repo)]
    finally:
        os.chdir(old)
    assert 'x = 1' in out2 and 'x = 2' in out2, out2      # control shows the edit
    expected = [(canon(nb_text('x = 1')), canon(nb_text('x = 2')))]
    if pairs != expected or 'x = 2' not in out:
        print('git diff HEAD -- a.ipynb b.ipynb c.ipynb : a.ipynb modified (x = 1 -> x = 2)')
        print('resolve_diff_args -> base=%r remote=%r paths=%r' % (base, remote, paths))
        print('nbdime pairs: base side == remote side: %s' % all(a == b for a, b in pairs))
        print('`nbdiff a.ipynb b.ipynb c.ipynb` printed:\n%s' % out)
        return 1
    return 0


sys.exit(main())
