"""
C17: working-tree side with a clean filter whose command uses git's %f
placeholder (path of the file being filtered, as e.g. `git-lfs clean -- %f`).
git substitutes %f; nbdime runs the command verbatim, so the filter sees the
literal string "%f".  A filter that acts per path then produces different
content from what git compares.
"""
import io, json, os, shutil, subprocess, sys, tempfile

HERE = os.path.dirname(os.path.abspath(__file__))
NAME = os.path.splitext(os.path.basename(__file__))[0]


def scratch():
    """Fresh scratch directory (next to this script if possible), with an
    isolated HOME / git configuration so the real user config is never touched."""
    base = os.path.join(HERE, 'work')
    try:
        os.makedirs(base, exist_ok=True)
        d = os.path.join(base, NAME)
        shutil.rmtree(d, ignore_errors=True)
        os.makedirs(d)
    except OSError:
        d = tempfile.mkdtemp(prefix=NAME)
    d = os.path.realpath(d)
    home = os.path.join(d, 'home')
    os.makedirs(home)
    open(os.path.join(home, 'gitconfig'), 'w').close()
    os.environ.update(
        HOME=home, XDG_CONFIG_HOME=os.path.join(home, 'xdg'),
        GIT_CONFIG_GLOBAL=os.path.join(home, 'gitconfig'), GIT_CONFIG_NOSYSTEM='1',
        GIT_AUTHOR_NAME='t', GIT_AUTHOR_EMAIL='t@example.com',
        GIT_COMMITTER_NAME='t', GIT_COMMITTER_EMAIL='t@example.com')
    for k in ('GIT_DIR', 'GIT_WORK_TREE', 'GIT_INDEX_FILE'):
        os.environ.pop(k, None)
    return d


def git(*args, cwd):
    p = subprocess.run(['git'] + list(args), cwd=cwd, stdout=subprocess.PIPE, stderr=subprocess.PIPE)
    if p.returncode:
        raise RuntimeError('git %r failed: %s' % (args, p.stderr.decode('utf8', 'replace')))
    return p.stdout.decode('utf8', 'surrogateescape')

import nbformat
from nbformat import v4


def nb_text(source):
    """A minimal valid v4.4 notebook (no cell ids) with one code cell."""
    nb = v4.new_notebook()
    nb.cells = [v4.new_code_cell(source)]
    for c in nb.cells:
        c.pop('id', None)
    nb.nbformat_minor = 4
    nbformat.validate(nb)
    return nbformat.writes(nb) + '\n'


def write(repo, path, text):
    full = os.path.join(repo, path)
    os.makedirs(os.path.dirname(full), exist_ok=True)
    with open(full, 'w', encoding='utf8') as f:
        f.write(text)


def examined(base, remote, paths=None, cwd=None, **kw):
    """What nbdime examines: list of (base_text|None, remote_text|None)."""
    from nbdime.gitfiles import changed_notebooks
    from nbdime.utils import EXPLICIT_MISSING_FILE
    old = os.getcwd()
    os.chdir(cwd)
    try:
        res = []
        for fa, fb in changed_notebooks(base, remote, paths, **kw):
            pair = []
            for f in (fa, fb):
                if f == EXPLICIT_MISSING_FILE:
                    pair.append(None)
                else:
                    pair.append(f.read())
                    f.close()
            res.append(tuple(pair))
        if os.getcwd() != cwd:
            print('working directory changed to', os.getcwd())
            sys.exit(1)
        return res
    finally:
        os.chdir(old)


def canon(text):
    return None if text is None else json.dumps(json.loads(text), sort_keys=True)

def main():
    d = scratch()
    repo = os.path.join(d, 'repo')
    os.makedirs(repo)
    git('init', '-q', cwd=repo)
    # strip only notebooks under nb/, decided from the path git passes as %f
    script = os.path.join(d, 'clean.sh')
    with open(script, 'w') as f:
        f.write('#!/bin/sh\ncase "$1" in nb/*) sed -e s/SECRET/x/ ;; *) cat ;; esac\n')
    os.chmod(script, 0o755)
    git('config', 'filter.strip.clean', "'%s' %%f" % script, cwd=repo)
    write(repo, '.gitattributes', '*.ipynb filter=strip\n')
    write(repo, 'nb/y.ipynb', nb_text('a = 1'))
    git('add', '-A', cwd=repo)
    git('commit', '-q', '-m', 'c1', cwd=repo)
    write(repo, 'nb/y.ipynb', nb_text('a = 2  # SECRET'))

    # oracle: what git itself would store for the working-tree file
    sha = git('hash-object', '--path', 'nb/y.ipynb', 'nb/y.ipynb', cwd=repo).strip()
    git('hash-object', '-w', '--path', 'nb/y.ipynb', 'nb/y.ipynb', cwd=repo)
    expected_remote = canon(git('cat-file', 'blob', sha, cwd=repo))
    assert expected_remote == canon(nb_text('a = 2  # x')), expected_remote

    got = [(canon(a), canon(b)) for a, b in examined('HEAD', None, cwd=repo)]
    if [b for a, b in got] != [expected_remote]:
        print('git compares filtered content : %s' % expected_remote)
        print('nbdime remote side            : %s' % [b for a, b in got])
        return 1
    return 0


sys.exit(main())
