"""
C18: repository-scope `config --enable` run from a sub-directory of the
repository.  `git config` (which works from any sub-directory) registers the
drivers, but locate_gitattributes() only looks for `.git` in the current
directory, finds none, and the attributes lines are skipped (exit status 0,
a note on stderr).  The integration is half enabled: drivers are configured,
no notebook is routed to them.
(Outside the letter of the quantifier, which does not vary the directory;
recorded because the sibling property C17 does and the exit status is 0.)
"""
import io, json, os, shutil, subprocess, sys, tempfile

HERE = os.path.dirname(os.path.abspath(__file__))
NAME = os.path.splitext(os.path.basename(__file__))[0]


def scratch():
    """Fresh scratch directory (next to this script if possible), with an
    isolated HOME / git configuration so the real user config is never touched."""
    base = os.path.join(HERE, 'work')
    try:
        os.makedirs(base, exist_ok=True)
        d = os.path.join(base, NAME)
        shutil.rmtree(d, ignore_errors=True)
        os.makedirs(d)
    except OSError:
        d = tempfile.mkdtemp(prefix=NAME)
    d = os.path.realpath(d)
    home = os.path.join(d, 'home')
    os.makedirs(home)
    open(os.path.join(home, 'gitconfig'), 'w').close()
    os.environ.update(
        HOME=home, XDG_CONFIG_HOME=os.path.join(home, 'xdg'),
        GIT_CONFIG_GLOBAL=os.path.join(home, 'gitconfig'), GIT_CONFIG_NOSYSTEM='1',
        GIT_AUTHOR_NAME='t', GIT_AUTHOR_EMAIL='t@example.com',
        GIT_COMMITTER_NAME='t', GIT_COMMITTER_EMAIL='t@example.com')
    for k in ('GIT_DIR', 'GIT_WORK_TREE', 'GIT_INDEX_FILE'):
        os.environ.pop(k, None)
    return d


def git(*args, cwd):
    p = subprocess.run(['git'] + list(args), cwd=cwd, stdout=subprocess.PIPE, stderr=subprocess.PIPE)
    if p.returncode:
        raise RuntimeError('git %r failed: %s' % (args, p.stderr.decode('utf8', 'replace')))
    return p.stdout.decode('utf8', 'surrogateescape')

import types


def load_tools():
    """Import the four git integration modules.  The difftool/mergetool modules
    import nbdime's web front-ends at module level; if the optional web
    dependencies (jinja2, jupyter_server, ...) are missing, stub those
    front-ends -- they play no role in the `config` sub-commands tested here."""
    try:
        import nbdime.webapp.nbdifftool, nbdime.webapp.nbmergetool  # noqa
    except ImportError:
        import nbdime  # noqa
        for n in list(sys.modules):
            if n.startswith('nbdime.webapp'):
                del sys.modules[n]
        pkg = types.ModuleType('nbdime.webapp')
        pkg.__path__ = []
        sys.modules['nbdime.webapp'] = pkg
        for n in ('nbdifftool', 'nbmergetool'):
            m = types.ModuleType('nbdime.webapp.' + n)
            m.build_arg_parser = lambda parser=None: parser
            m.main_parsed = lambda opts: 0
            sys.modules['nbdime.webapp.' + n] = m
            setattr(pkg, n, m)
    from nbdime.vcs.git import diffdriver, mergedriver, difftool, mergetool
    return diffdriver, mergedriver, difftool, mergetool


def run_in(cwd, func, args):
    import contextlib
    old = os.getcwd()
    os.chdir(cwd)
    buf = io.StringIO()
    try:
        with contextlib.redirect_stderr(buf), contextlib.redirect_stdout(buf):
            rc = func(args)
    finally:
        os.chdir(old)
    return rc, buf.getvalue()


def attr_of(repo, attr, path='x.ipynb'):
    out = git('check-attr', attr, '--', path, cwd=repo)
    return out.strip().rsplit(': ', 1)[-1]

def main():
    d = scratch()
    diffdriver, mergedriver, difftool, mergetool = load_tools()
    repo = os.path.join(d, 'repo')
    os.makedirs(os.path.join(repo, 'sub'))
    git('init', '-q', cwd=repo)
    sub = os.path.join(repo, 'sub')
    outs = []
    for mod in (diffdriver, mergedriver):
        r, out = run_in(sub, mod.main, ['config', '--enable'])
        assert r == 0, (r, out)
        outs.append(out.strip())
    cfg = git('config', '--local', '--list', cwd=repo)
    assert 'diff.jupyternotebook.command' in cfg and 'merge.jupyternotebook.driver' in cfg, cfg
    got = (attr_of(repo, 'diff', 'sub/x.ipynb'), attr_of(repo, 'merge', 'sub/x.ipynb'))
    if got != ('jupyternotebook', 'jupyternotebook'):
        print('drivers registered in .git/config, exit status 0, but git check-attr sub/x.ipynb -> '
              'diff: %s, merge: %s' % got)
        print('no attributes file written: %s' % (not os.path.exists(os.path.join(repo, '.gitattributes'))
                                                  and not os.path.exists(os.path.join(sub, '.gitattributes'))))
        print('stderr: %r' % outs)
        return 1
    return 0


sys.exit(main())
